import StamModel.Props.C14
/-
  C14 — batches (`AnnotationStore::annotate_from_iter`, which `annotate_from_file` and ADD queries over several
  result rows go through): one `annotate` per element, the first refusal ends the batch.

  The code does not undo the elements added before the refused one (a known finding of C14). What the theorems fix is
  the extent of it: a refused batch leaves exactly the state in which the elements before the refused one were
  annotated one by one and the refused element was attempted — nothing else; and a batch none of whose elements is
  refused is the same as annotating them one by one.
-/
namespace Stam.C14
open Stam

/-- a batch is the elements one by one, up to and including the first that is refused -/
theorem annotateAll_is_prefix (s : State) (l : List Item) :
    (∃ hs, (annotateAll s l).1 = some hs ∧ (annotateAll s l).2 = annotateSeq s l ∧ hs.length = l.length) ∨
    (∃ pre it post, l = pre ++ it :: post ∧ (annotateAll s l).1 = none ∧
      (∀ k (h : k < pre.length), ∃ hd, ((annotateSeq s (pre.take k)).annotate (pre[k]).id (pre[k]).target (pre[k]).data).1 = .ok hd) ∧
      ((annotateSeq s pre).annotate it.id it.target it.data).1 = .err ∧
      (annotateAll s l).2 = ((annotateSeq s pre).annotate it.id it.target it.data).2) := by
  induction l generalizing s with
  | nil => exact Or.inl ⟨[], rfl, rfl, rfl⟩
  | cons it r ih =>
    cases ha : s.annotate it.id it.target it.data with
    | mk resp s1 =>
      cases resp with
      | err =>
        refine Or.inr ⟨[], it, r, rfl, by simp [annotateAll, ha], ?_, by simp [annotateSeq, ha], by simp [annotateAll, annotateSeq, ha]⟩
        intro k h; simp at h
      | ok hd =>
        rcases ih s1 with ⟨hs, h1, h2, h3⟩ | ⟨pre, it', post, hl, h1, hk, herr, hst⟩
        · refine Or.inl ⟨hd :: hs, ?_, ?_, by simp [h3]⟩
          · simp only [annotateAll, ha]
            cases hb : annotateAll s1 r with
            | mk o s2 => rw [hb] at h1; simp only at h1; subst h1; rfl
          · simp only [annotateAll, annotateSeq, ha]
            cases hb : annotateAll s1 r with
            | mk o s2 => rw [hb] at h1 h2; simp only at h1 h2; subst h1; exact h2
        · refine Or.inr ⟨it :: pre, it', post, by rw [hl]; rfl, ?_, ?_, ?_, ?_⟩
          · simp only [annotateAll, ha]
            cases hb : annotateAll s1 r with
            | mk o s2 => rw [hb] at h1; simp only at h1; subst h1; rfl
          · intro k h
            cases k with
            | zero => exact ⟨hd, by simp [annotateSeq, ha]⟩
            | succ k =>
              have := hk k (by simpa using h)
              simpa [annotateSeq, ha] using this
          · simpa [annotateSeq, ha] using herr
          · simp only [annotateAll, ha, annotateSeq]
            cases hb : annotateAll s1 r with
            | mk o s2 => rw [hb] at h1 hst; simp only at h1 hst; subst h1; exact hst

/-- whatever a refused batch leaves behind among the annotations and the reverse indices, it is what the elements
before the refused one put there: the refused element itself adds no annotation and changes no index -/
theorem refused_batch_annotations (s : State) (l : List Item) (h : (annotateAll s l).1 = none) :
    ∃ pre it post, l = pre ++ it :: post ∧ (annotateAll s l).2.anns = (annotateSeq s pre).anns ∧
      (annotateAll s l).2.edges = (annotateSeq s pre).edges := by
  rcases annotateAll_is_prefix s l with ⟨hs, h1, _, _⟩ | ⟨pre, it, post, hl, _, _, herr, hst⟩
  · rw [h] at h1; cases h1
  · obtain ⟨a, b⟩ := annotate_fail_partial (annotateSeq s pre) it.id it.target it.data herr
    exact ⟨pre, it, post, hl, by rw [hst, a], by rw [hst, b]⟩

/-- **a refused batch is not a no-op** (the known finding, on the model): the element before the refused one stays -/
theorem refused_batch_keeps_earlier_elements :
    ∃ (s : State) (l : List Item), (annotateAll s l).1 = none ∧ (annotateAll s l).2.anns ≠ s.anns := by
  refine ⟨(State.empty.addRes "r" 8).2,
    [⟨some "a", .simple (.text "r" ⟨.b 0, .b 2⟩), []⟩, ⟨some "b", .simple (.text "nores" ⟨.b 0, .b 1⟩), []⟩], ?_, ?_⟩ <;> decide

end Stam.C14
