import StamModel.CsvRow
import StamModel.Props.C15
/-
  C15 — a whole row of the STAM CSV annotations table survives writing and reading.

  Proved here, about `StamModel/CsvRow.lean`:
   * `row_roundtrip` — for every target (a simple selector of any kind, or a Composite/Multi/Directional selector
     over any number of simple selectors of any kinds, range-compressed runs expanded) whose identifiers contain no
     `;` and are not empty, with well-formed cursors of either alignment, the reader builds from the written cells
     exactly the target that was written: every sub-selector reads ITS entry of every column;
   * `data_roundtrip` — the data cells give back exactly the (dataset, data) pairs, in order, also when consecutive
     items share a dataset.
-/
namespace Stam.C15
open Stam Stam.Csv

/-- decimal printing as far as the row needs it -/
structure NatFmt (showNat : Nat → S) (parseNat : S → Option Nat) : Prop where
  rt : ∀ n, parseNat (showNat n) = some n
  dig : ∀ n, (showNat n).head? ≠ some '-'
  zero : showNat 0 = ['0']
  nosemi : ∀ n, ';' ∉ showNat n
  ne : ∀ n, showNat n ≠ []

def IdOk (s : S) : Prop := s ≠ [] ∧ ';' ∉ s

def SubOk : Sub → Prop
  | .text r b e => IdOk r ∧ b.WF ∧ e.WF
  | .ann a none => IdOk a
  | .ann a (some (b, e)) => IdOk a ∧ b.WF ∧ e.WF
  | .res r => IdOk r
  | .set d => IdOk d
  | .key d k => IdOk d ∧ ';' ∉ k
  | .data d x => IdOk d ∧ ';' ∉ x

def TargetOk : Target → Prop
  | .simple s => SubOk s
  | .complex k subs => k.isComplex = true ∧ subs ≠ [] ∧ ∀ s ∈ subs, SubOk s

/-! ### cells -/

theorem showCursor_nosemi {showNat parseNat} (h : NatFmt showNat parseNat) (c : Cursor) : ';' ∉ showCursor showNat c := by
  cases c with
  | b n => exact h.nosemi n
  | e z =>
    simp only [showCursor]
    split
    · decide
    · split
      · intro hm; simp at hm; exact h.nosemi _ hm
      · exact h.nosemi _

theorem showCursor_ne {showNat parseNat} (h : NatFmt showNat parseNat) (c : Cursor) : showCursor showNat c ≠ [] := by
  cases c with
  | b n => exact h.ne n
  | e z => simp only [showCursor]; split <;> (try split) <;> simp [h.ne]

theorem kindStr_nosemi (k : Kind) : ';' ∉ kindStr k := by cases k <;> decide

theorem parseKind_kindStr (k : Kind) : parseKind (kindStr k) = some k := by cases k <;> decide

theorem cells_nosemi {showNat parseNat} (h : NatFmt showNat parseNat) (s : Sub) (hs : SubOk s) :
    ';' ∉ cellResource s ∧ ';' ∉ cellAnnotation s ∧ ';' ∉ cellDataset s ∧ ';' ∉ cellBegin showNat s ∧
    ';' ∉ cellEnd showNat s ∧ ';' ∉ cellKey s ∧ ';' ∉ cellData s := by
  cases s with
  | text r b e => exact ⟨hs.1.2, by simp [cellAnnotation], by simp [cellDataset], showCursor_nosemi h b, showCursor_nosemi h e, by simp [cellKey], by simp [cellData]⟩
  | ann a off =>
    cases off with
    | none => exact ⟨by simp [cellResource], hs.2, by simp [cellDataset], by simp [cellBegin], by simp [cellEnd], by simp [cellKey], by simp [cellData]⟩
    | some p =>
      obtain ⟨b, e⟩ := p
      exact ⟨by simp [cellResource], hs.1.2, by simp [cellDataset], showCursor_nosemi h b, showCursor_nosemi h e, by simp [cellKey], by simp [cellData]⟩
  | res r => exact ⟨hs.2, by simp [cellAnnotation], by simp [cellDataset], by simp [cellBegin], by simp [cellEnd], by simp [cellKey], by simp [cellData]⟩
  | set d => exact ⟨by simp [cellResource], by simp [cellAnnotation], hs.2, by simp [cellBegin], by simp [cellEnd], by simp [cellKey], by simp [cellData]⟩
  | key d k => exact ⟨by simp [cellResource], by simp [cellAnnotation], hs.1.2, by simp [cellBegin], by simp [cellEnd], hs.2, by simp [cellData]⟩
  | data d x => exact ⟨by simp [cellResource], by simp [cellAnnotation], hs.1.2, by simp [cellBegin], by simp [cellEnd], by simp [cellKey], hs.2⟩

theorem hasSemi_false (s : S) (h : ';' ∉ s) : hasSemi s = false := by
  simp [hasSemi, h]

/-- a column of a complex selector: position 0 is the selector's own (empty), position i+1 the i-th sub-selector's -/
theorem column_split (subs : List Sub) (f : Sub → S) (h : ∀ s ∈ subs, ';' ∉ f s) :
    splitSemi (packColumn (subs.map f)) = [] :: subs.map f :=
  split_packColumn _ (by intro v hv; rcases List.mem_map.mp hv with ⟨s, hs, rfl⟩; exact h s hs)

theorem getOrLastP_at {α} (l : List α) (i : Nat) (x : α) (h : l[i]? = some x) : getOrLastP l i = .ok x := by
  have hne : l ≠ [] := by intro e; subst e; simp at h
  obtain ⟨y, hy⟩ : ∃ y, l.getLast? = some y := by
    cases hl : l.getLast? with
    | none => exact absurd (List.getLast?_eq_none_iff.mp hl) hne
    | some y => exact ⟨y, rfl⟩
  simp [getOrLastP, lastP, hy, h]

/-! ### reading the sub-selector at its position -/

theorem readSub_at {showNat parseNat} (h : NatFmt showNat parseNat) (subs : List Sub) (hok : ∀ s ∈ subs, SubOk s)
    (k0 : Kind) (j : Nat) (s : Sub) (hj : subs[j]? = some s) :
    readSub parseNat (k0 :: subs.map Sub.kind) ([] :: subs.map cellResource) ([] :: subs.map cellAnnotation)
      ([] :: subs.map cellDataset) ([] :: subs.map (cellBegin showNat)) ([] :: subs.map (cellEnd showNat))
      ([] :: subs.map cellKey) ([] :: subs.map cellData) (j + 1) = .ok s := by
  have hs : SubOk s := hok s (List.mem_of_getElem? hj)
  have g : ∀ (f : Sub → S), ([] :: subs.map f)[j + 1]? = some (f s) := by
    intro f; simp [List.getElem?_cons_succ, List.getElem?_map, hj]
  have gk : (k0 :: subs.map Sub.kind)[j + 1]? = some s.kind := by
    simp [List.getElem?_cons_succ, List.getElem?_map, hj]
  have crt := fun c hc => cursor_roundtrip showNat parseNat h.rt h.dig h.zero c hc
  unfold readSub
  rw [getOrLastP_at _ _ _ gk]
  cases s with
  | text r b e =>
    simp only [Sub.kind, Out.bind, getOrLastP_at _ _ _ (g cellResource), cellResource, g (cellBegin showNat), g (cellEnd showNat), cellBegin, cellEnd,
      cursorOf, crt b hs.2.1, crt e hs.2.2]
    simp [List.isEmpty_iff, hs.1.1]
  | ann a off =>
    cases off with
    | none =>
      simp only [Sub.kind, Out.bind, getOrLastP_at _ _ _ (g cellAnnotation), cellAnnotation, g (cellBegin showNat), g (cellEnd showNat), cellBegin, cellEnd]
      simp [List.isEmpty_iff, hs.1]
    | some p =>
      obtain ⟨b, e⟩ := p
      simp only [Sub.kind, Out.bind, getOrLastP_at _ _ _ (g cellAnnotation), cellAnnotation, g (cellBegin showNat), g (cellEnd showNat), cellBegin, cellEnd,
        cursorOf, unwrapP, crt b hs.2.1, crt e hs.2.2]
      simp [List.isEmpty_iff, hs.1.1, showCursor_ne h]
  | res r =>
    simp only [Sub.kind, Out.bind, getOrLastP_at _ _ _ (g cellResource), cellResource]
    simp [List.isEmpty_iff, hs.1]
  | set d =>
    simp only [Sub.kind, Out.bind, getOrLastP_at _ _ _ (g cellDataset), cellDataset]
    simp [List.isEmpty_iff, hs.1]
  | key d k =>
    simp only [Sub.kind, Out.bind, getOrLastP_at _ _ _ (g cellDataset), g cellKey, cellDataset, cellKey]
    simp [List.isEmpty_iff, hs.1.1]
  | data d x =>
    simp only [Sub.kind, Out.bind, getOrLastP_at _ _ _ (g cellDataset), g cellData, cellDataset, cellData]
    simp [List.isEmpty_iff, hs.1.1]

theorem readSubs_all {showNat parseNat} (h : NatFmt showNat parseNat) (subs : List Sub) (hok : ∀ s ∈ subs, SubOk s) (k0 : Kind) :
    ∀ (post pre : List Sub), subs = pre ++ post →
      readSubs parseNat (k0 :: subs.map Sub.kind) ([] :: subs.map cellResource) ([] :: subs.map cellAnnotation)
        ([] :: subs.map cellDataset) ([] :: subs.map (cellBegin showNat)) ([] :: subs.map (cellEnd showNat))
        ([] :: subs.map cellKey) ([] :: subs.map cellData) (pre.length + 1) post.length = .ok post := by
  intro post
  induction post with
  | nil => intro pre _; simp [readSubs]
  | cons s rest ih =>
    intro pre hsplit
    have hj : subs[pre.length]? = some s := by rw [hsplit]; simp
    have h1 := readSub_at h subs hok k0 pre.length s hj
    have h2 := ih (pre ++ [s]) (by rw [hsplit]; simp)
    simp only [List.length_append, List.length_cons, List.length_nil, Nat.zero_add] at h2
    simp only [List.length_cons, readSubs, h1, h2, Out.bind]

/-! ### the row -/

/-- **C15 (row round trip).** The target read from the cells written for a target is that target. -/
theorem row_roundtrip (showNat : Nat → S) (parseNat : S → Option Nat) (h : NatFmt showNat parseNat) (t : Target) (ht : TargetOk t) :
    readTarget parseNat (writeRow showNat t) = .ok t := by
  have crt := fun c hc => cursor_roundtrip showNat parseNat h.rt h.dig h.zero c hc
  cases t with
  | simple s =>
    have hc := cells_nosemi h s ht
    have hk : splitSemi (kindStr s.kind) = [kindStr s.kind] := by
      have := splitSemi_append (kindStr s.kind) [] (kindStr_nosemi _)
      simpa [splitSemi] using this
    unfold readTarget writeRow
    simp only [hk, List.map_cons, List.map_nil, parseKind_kindStr, optAllK, Option.map_some]
    have hnc : s.kind.isComplex = false := by cases s <;> rfl
    simp only [hnc, Bool.false_eq_true, false_and, ↓reduceIte, Bool.not_false, hasSemi_false _ hc.1, hasSemi_false _ hc.2.1,
      hasSemi_false _ hc.2.2.1, hasSemi_false _ hc.2.2.2.1, hasSemi_false _ hc.2.2.2.2.1, hasSemi_false _ hc.2.2.2.2.2.1,
      hasSemi_false _ hc.2.2.2.2.2.2, Bool.or_self]
    cases s with
    | text r b e => simp [Sub.kind, cellResource, cellBegin, cellEnd, cursorOf, Out.bind, crt b ht.2.1, crt e ht.2.2]
    | ann a off =>
      cases off with
      | none => simp [Sub.kind, cellAnnotation, cellBegin, cellEnd]
      | some p =>
        obtain ⟨b, e⟩ := p
        simp [Sub.kind, cellAnnotation, cellBegin, cellEnd, cursorOf, Out.bind, crt b ht.2.1, crt e ht.2.2, List.isEmpty_iff, showCursor_ne h]
    | res r => simp [Sub.kind, cellResource]
    | set d => simp [Sub.kind, cellDataset]
    | key d k => simp [Sub.kind, cellDataset, cellKey]
    | data d x => simp [Sub.kind, cellDataset, cellData]
  | complex k subs =>
    obtain ⟨hk, hne, hok⟩ := ht
    have hcells := fun s hs => cells_nosemi h s (hok s hs)
    have hkinds : splitSemi (kindStr k ++ packColumn (subs.map (fun s => kindStr s.kind))) = kindStr k :: subs.map (fun s => kindStr s.kind) := by
      rw [splitSemi_append _ _ (kindStr_nosemi k), column_split subs (fun s => kindStr s.kind) (fun s _ => kindStr_nosemi _)]
      simp
    have hopt : ∀ l : List Sub, optAllK (l.map (fun s => some s.kind)) = some (l.map Sub.kind) := by
      intro l; induction l with
      | nil => rfl
      | cons x xs ih => simp only [List.map_cons, optAllK, ih, Option.map_some]
    unfold readTarget writeRow
    simp only [hkinds, List.map_cons, parseKind_kindStr, List.map_map, Function.comp_def, optAllK, hopt, Option.map_some]
    have hks : (subs.map Sub.kind).isEmpty = false := by cases subs <;> simp_all
    simp only [hk, hks, Bool.false_eq_true, and_false, ↓reduceIte, Bool.not_true]
    have hpk : ∀ f : Sub → S, (packColumn (subs.map f)).isEmpty = false := by
      intro f; cases subs with
      | nil => exact absurd rfl hne
      | cons x xs => simp [packColumn]
    simp only [hpk, Bool.false_eq_true, ↓reduceIte]
    rw [column_split subs cellResource (fun s hs => (hcells s hs).1), column_split subs cellDataset (fun s hs => (hcells s hs).2.2.1),
      column_split subs cellAnnotation (fun s hs => (hcells s hs).2.1), column_split subs cellKey (fun s hs => (hcells s hs).2.2.2.2.2.1),
      column_split subs cellData (fun s hs => (hcells s hs).2.2.2.2.2.2), column_split subs (cellBegin showNat) (fun s hs => (hcells s hs).2.2.2.1),
      column_split subs (cellEnd showNat) (fun s hs => (hcells s hs).2.2.2.2.1)]
    have hlen : ([(k :: subs.map Sub.kind).length, ([] :: subs.map cellResource).length, ([] :: subs.map cellDataset).length,
        ([] :: subs.map cellAnnotation).length, ([] :: subs.map (cellBegin showNat)).length, ([] :: subs.map (cellEnd showNat)).length,
        ([] :: subs.map cellKey).length, ([] :: subs.map cellData).length].foldl max 0) - 1 = subs.length := by
      simp
    simp only [hlen]
    have := readSubs_all h subs hok k subs [] (by simp)
    simp only [List.length_nil, Nat.zero_add] at this
    rw [this]
    simp [Out.bind, hk]

/-! ### the reader never panics (C19: whatever the cells hold) -/

def NoPanic {α} : Out α → Prop
  | .panic _ => False
  | _ => True

theorem parseCursor_nopanic (parseNat : S → Option Nat) (s : S) : NoPanic (parseCursor parseNat s) := by
  unfold parseCursor
  split
  · split <;> simp [NoPanic]
  · split <;> simp [NoPanic]

theorem bind_nopanic {α β} (o : Out α) (f : α → Out β) (ho : NoPanic o) (hf : ∀ x, o = .ok x → NoPanic (f x)) : NoPanic (o.bind f) := by
  cases o with
  | ok x => exact hf x rfl
  | err m => simp [Out.bind, NoPanic]
  | panic m => exact absurd ho (by simp [NoPanic])

theorem getOrLastP_nopanic {α} (l : List α) (i : Nat) (h : l ≠ []) : NoPanic (getOrLastP l i) := by
  cases hl : l.getLast? with
  | none => exact absurd (List.getLast?_eq_none_iff.mp hl) h
  | some y => simp [getOrLastP, lastP, hl, NoPanic]

/-- every `unwrap` in the loop over the sub-selectors is guarded: whatever the lists hold (they come from `split`, so
none is empty), reading position `i` gives a sub-selector or an error -/
theorem readSub_nopanic (parseNat : S → Option Nat) (kinds : List Kind) (res ann dset beg en keys dat : List S) (i : Nat)
    (hk : kinds ≠ []) (hr : res ≠ []) (ha : ann ≠ []) (hd : dset ≠ []) :
    NoPanic (readSub parseNat kinds res ann dset beg en keys dat i) := by
  unfold readSub
  refine bind_nopanic _ _ (getOrLastP_nopanic _ _ hk) ?_
  intro kind _
  cases kind with
  | text =>
    refine bind_nopanic _ _ (getOrLastP_nopanic _ _ hr) ?_
    intro r _
    split
    · simp [NoPanic]
    · split
      · simp [NoPanic]
      · refine bind_nopanic _ _ (parseCursor_nopanic _ _) ?_
        intro b _
        split
        · simp [NoPanic]
        · exact bind_nopanic _ _ (parseCursor_nopanic _ _) (by intro e _; simp [NoPanic])
  | ann =>
    refine bind_nopanic _ _ (getOrLastP_nopanic _ _ ha) ?_
    intro a _
    split
    · simp [NoPanic]
    · split
      · rename_i hb
        split
        · simp [NoPanic]
        · rename_i he
          -- both guards passed: the two entries exist
          have hbs : ∃ b, beg[i]? = some b := by
            cases h : beg[i]? with
            | none => simp [h] at hb
            | some b => exact ⟨b, rfl⟩
          have hes : ∃ e, en[i]? = some e := by
            cases h : en[i]? with
            | none => simp [h] at he
            | some e => exact ⟨e, rfl⟩
          obtain ⟨b, hb'⟩ := hbs
          obtain ⟨e, he'⟩ := hes
          simp only [hb', he', unwrapP, Out.bind]
          have h1 := parseCursor_nopanic parseNat b
          have h2 := parseCursor_nopanic parseNat e
          cases hc1 : cursorOf parseNat b <;> cases hc2 : cursorOf parseNat e <;> simp_all [cursorOf, NoPanic]
      · split <;> simp [NoPanic]
  | res =>
    refine bind_nopanic _ _ (getOrLastP_nopanic _ _ hr) ?_
    intro r _; split <;> simp [NoPanic]
  | set =>
    refine bind_nopanic _ _ (getOrLastP_nopanic _ _ hd) ?_
    intro d _; split <;> simp [NoPanic]
  | key =>
    refine bind_nopanic _ _ (getOrLastP_nopanic _ _ hd) ?_
    intro d _; split
    · simp [NoPanic]
    · split <;> simp [NoPanic]
  | data =>
    refine bind_nopanic _ _ (getOrLastP_nopanic _ _ hd) ?_
    intro d _; split
    · simp [NoPanic]
    · split <;> simp [NoPanic]
  | multi => simp [NoPanic]
  | comp => simp [NoPanic]
  | dir => simp [NoPanic]

theorem readSubs_nopanic (parseNat : S → Option Nat) (kinds : List Kind) (res ann dset beg en keys dat : List S)
    (hk : kinds ≠ []) (hr : res ≠ []) (ha : ann ≠ []) (hd : dset ≠ []) :
    ∀ (n i : Nat), NoPanic (readSubs parseNat kinds res ann dset beg en keys dat i n) := by
  intro n
  induction n with
  | zero => intro i; simp [readSubs, NoPanic]
  | succ n ih =>
    intro i
    simp only [readSubs]
    refine bind_nopanic _ _ (readSub_nopanic parseNat kinds res ann dset beg en keys dat i hk hr ha hd) ?_
    intro s _
    exact bind_nopanic _ _ (ih (i + 1)) (by intro r _; simp [NoPanic])

/-- **C19 for the annotations table.** Whatever the eight target cells of a row contain, the reader builds a target or
returns an error: none of its `unwrap`s and its `unreachable!` can be reached. -/
theorem readTarget_never_panics (parseNat : S → Option Nat) (row : Row) : NoPanic (readTarget parseNat row) := by
  unfold readTarget
  split
  · simp [NoPanic]
  · simp [NoPanic]
  · rename_i k0 ks _
    split
    · simp [NoPanic]
    · split
      · split
        · simp [NoPanic]
        · cases k0 <;> simp only [] <;> first
            | (simp [NoPanic]; done)
            | (refine bind_nopanic _ _ (parseCursor_nopanic _ _) ?_; intro b _; exact bind_nopanic _ _ (parseCursor_nopanic _ _) (by intro e _; simp [NoPanic]))
            | (split
               · refine bind_nopanic _ _ (parseCursor_nopanic _ _) ?_; intro b _; exact bind_nopanic _ _ (parseCursor_nopanic _ _) (by intro e _; simp [NoPanic])
               · split <;> simp [NoPanic])
      · rename_i hc
        refine bind_nopanic _ _ (readSubs_nopanic parseNat _ _ _ _ _ _ _ _ (by simp) (splitSemi_ne_nil _) (splitSemi_ne_nil _) (splitSemi_ne_nil _) _ _) ?_
        intro subs _
        have : k0.isComplex = true := by simpa using hc
        simp [this, NoPanic]

/-! ### data cells -/

theorem intercalate_split (vals : List S) (hne : vals ≠ []) (h : ∀ v ∈ vals, ';' ∉ v) :
    splitSemi (writeData.intercalateSemi vals) = vals := by
  induction vals with
  | nil => exact absurd rfl hne
  | cons v vs ih =>
    have hv := h v (by simp)
    cases vs with
    | nil =>
      have := splitSemi_append v [] hv
      simpa [writeData.intercalateSemi, splitSemi] using this
    | cons w ws =>
      have ih' := ih (by simp) (fun x hx => h x (by simp [hx]))
      simp only [writeData.intercalateSemi]
      rw [splitSemi_append v _ hv]
      simp only [splitSemi, ↓reduceIte, List.headD_cons, List.append_nil, List.tail_cons]
      rw [ih']

/-- **C15 (data cells).** The (dataset, data) pairs read from the two cells are the pairs written, in order — the
i-th data identifier is looked up in the i-th dataset. -/
theorem data_roundtrip (items : List (S × S)) (h : ∀ p ∈ items, IdOk p.1 ∧ IdOk p.2) :
    readData (writeData items).1 (writeData items).2 = items := by
  cases items with
  | nil => simp [readData, writeData, writeData.intercalateSemi]
  | cons p ps =>
    have hd : splitSemi (writeData.intercalateSemi ((p :: ps).map (·.2))) = (p :: ps).map (·.2) :=
      intercalate_split _ (by simp) (by intro v hv; rcases List.mem_map.mp hv with ⟨q, hq, rfl⟩; exact (h q hq).2.2)
    have hs : splitSemi (writeData.intercalateSemi ((p :: ps).map (·.1))) = (p :: ps).map (·.1) :=
      intercalate_split _ (by simp) (by intro v hv; rcases List.mem_map.mp hv with ⟨q, hq, rfl⟩; exact (h q hq).1.2)
    have hne : (writeData.intercalateSemi ((p :: ps).map (·.2))).isEmpty = false := by
      cases ps with
      | nil => simp [writeData.intercalateSemi, List.isEmpty_iff, (h p (by simp)).2.1]
      | cons q qs =>
        simp only [List.map_cons, writeData.intercalateSemi]
        cases hp : p.2 with
        | nil => simp
        | cons c cs => simp
    unfold readData writeData
    simp only [hne, Bool.false_eq_true, ↓reduceIte, hd, hs]
    apply List.ext_getElem?
    intro i
    simp only [List.getElem?_map, List.getElem?_zipIdx]
    cases hi : (p :: ps)[i]? with
    | none => simp
    | some q =>
      have h1 : ((p :: ps).map (fun x => x.1))[i]? = some q.1 := by rw [List.getElem?_map, hi]; rfl
      have h2 : ((p :: ps).map (fun x => x.2))[i]? = some q.2 := by rw [List.getElem?_map, hi]; rfl
      simp only [h2, Option.map_some, Nat.zero_add, hi, Option.getD_some]

/-! ### non-vacuity -/

example : TargetOk (.complex .comp [.text "r".toList (.b 0) (.e (-1)), .ann "a".toList none, .key "s".toList "k".toList]) := by
  refine ⟨rfl, by simp, ?_⟩
  intro s hs
  simp only [List.mem_cons, List.mem_nil_iff, or_false] at hs
  rcases hs with rfl | rfl | rfl
  · exact ⟨⟨by decide, by decide⟩, trivial, by simp [Cursor.WF]⟩
  · exact ⟨by decide, by decide⟩
  · exact ⟨⟨by decide, by decide⟩, by decide⟩

/-- consecutive items of one dataset followed by another dataset: every data identifier keeps its dataset -/
example : readData (writeData [("A".toList, "d1".toList), ("A".toList, "d2".toList), ("B".toList, "d3".toList)]).1
    (writeData [("A".toList, "d1".toList), ("A".toList, "d2".toList), ("B".toList, "d3".toList)]).2
    = [("A".toList, "d1".toList), ("A".toList, "d2".toList), ("B".toList, "d3".toList)] := by decide

end Stam.C15
