import StamModel.Props.C02
/-
  C14 — Failed mutations leave the store observably unchanged.

  Full statement: `FullStatement` below (every failing operation returns the state it was given).
  It is proved for adding resources and datasets and for every removal. For `annotate` (and data
  insertion) it is FALSE on the present code - see `annotate_fail_not_noop` for the witness, which the
  harness replays on the implementation (known finding C14/annotate/*) - and what does hold is proved
  as `annotate_fail_partial`.
-/
namespace Stam.C14
open Stam Stam.C01 Stam.C02

def FullStatement : Prop := ∀ (s : State) (op : StoreOp), WF s → (step s op).1 = .err → (step s op).2 = s

theorem addRes_fail_noop (s : State) (id : String) (len : Nat) (h : (s.addRes id len).1 = .err) :
    (s.addRes id len).2 = s := by
  unfold State.addRes at h ⊢
  split
  · split <;> rfl
  · rename_i hn; simp [hn] at h

theorem addSet_fail_noop (s : State) (id : String) (ks : List String) (h : (s.addSet id ks).1 = .err) :
    (s.addSet id ks).2 = s := by
  unfold State.addSet at h ⊢
  split
  · split
    · split <;> rfl
    · rfl
  · rename_i hn; simp [hn] at h

theorem rmAnn_fail_noop (s : State) (r : Ref) (h : (s.rmAnn r).1 = .err) : (s.rmAnn r).2 = s := by
  unfold State.rmAnn at h ⊢
  split
  · rename_i hs; simp [hs] at h
  · rfl

theorem rmData_fail_noop (s : State) (set : String) (d : Ref) (strict : Bool)
    (h : (s.rmData set d strict).1 = .err) : (s.rmData set d strict).2 = s := by
  unfold State.rmData at h ⊢
  cases h1 : s.resolveSet set with
  | none => rfl
  | some sh =>
    simp only [h1] at h ⊢
    cases h2 : getLive s.sets sh with
    | none => rfl
    | some m =>
      simp only [h2] at h ⊢
      cases hdh : m.dataHandleOf d with
      | none => rfl
      | some dh =>
        simp only [hdh] at h ⊢
        cases h3 : s.rmDataH sh dh strict with
        | none => rfl
        | some s1 => rw [h3] at h; cases h

theorem rmRes_fail_noop (s : State) (id : String) (hw : WF s) (h : (s.rmRes id).1 = .err) :
    (s.rmRes id).2 = s := by
  cases hr : s.lookupRes id with
  | none => simp [State.rmRes, hr]
  | some rh =>
    have := rmRes_ok s id rh hw.inv hw.lt hr
    rw [this] at h; cases h

theorem rmSet_fail_noop (s : State) (id : String) (hw : WF s) (h : (s.rmSet id).1 = .err) :
    (s.rmSet id).2 = s := by
  cases hr : s.lookupSet id with
  | none => simp [State.rmSet, hr]
  | some sh =>
    have := rmSet_ok s id sh hw.inv hw.lt hr
    rw [this] at h; cases h

/-- **fail_noop_partial**: the full statement restricted to the operations for which it holds -/
theorem fail_noop_partial (s : State) (op : StoreOp) (hw : WF s)
    (hop : match op with | .addRes .. | .addSet _ | .rmAnn _ | .rmRes _ | .rmSet _ | .rmData .. => True | _ => False)
    (h : (step s op).1 = .err) : (step s op).2 = s := by
  cases op with
  | addRes id len => exact addRes_fail_noop s id len h
  | addSet id => exact addSet_fail_noop s id [] h
  | rmAnn r => exact rmAnn_fail_noop s r h
  | rmRes id => exact rmRes_fail_noop s id hw h
  | rmSet id => exact rmSet_fail_noop s id hw h
  | rmData set d strict => exact rmData_fail_noop s set d strict h
  | _ => cases hop

/-- a retry after a failed operation of these kinds behaves as if the attempt had never happened -/
theorem retry (s : State) (op op' : StoreOp) (hw : WF s)
    (hop : match op with | .addRes .. | .addSet _ | .rmAnn _ | .rmRes _ | .rmSet _ | .rmData .. => True | _ => False)
    (h : (step s op).1 = .err) : step (step s op).2 op' = step s op' := by
  rw [fail_noop_partial s op hw hop h]

/-- **what a failed `annotate` cannot do**: no annotation appears, disappears or changes, and no
reverse index changes (so every lookup of C01 answers as before) -/
theorem annotate_fail_partial (s : State) (id : Option String) (t : TargetReq) (ds : List DataReq)
    (h : (s.annotate id t ds).1 = .err) :
    (s.annotate id t ds).2.anns = s.anns ∧ (s.annotate id t ds).2.edges = s.edges := by
  unfold State.annotate at h ⊢
  obtain ⟨t1, t2⟩ := target_frame s t
  cases ht : s.target t with
  | mk o s1 =>
    rw [ht] at t1 t2 h
    cases o with
    | none => exact ⟨t1, t2⟩
    | some tm =>
      simp only [] at h ⊢
      obtain ⟨d1, d2⟩ := insertDataList_frame ds s1
      cases hd : s1.insertDataList ds with
      | mk o2 s2 =>
        rw [hd] at d1 d2 h
        cases o2 with
        | none => exact ⟨by rw [d1, t1], by rw [d2, t2]⟩
        | some data =>
          simp only [] at h ⊢
          split
          · split
            · exact ⟨by rw [d1, t1], by rw [d2, t2]⟩
            · exact ⟨by rw [d1, t1], by rw [d2, t2]⟩
          · rename_i hex
            simp only [hex] at h
            cases h

/-- a simple target that does not resolve leaves the state untouched -/
theorem simple_target_fail_noop (s : State) (r : SelReq) (h : (s.target (.simple r)).1 = none) :
    (s.target (.simple r)).2 = s := by
  simp only [State.target] at h ⊢
  cases hs : s.selector r with
  | none => rfl
  | some p => rw [hs] at h; cases h

/-- **the negation of the full statement on the model** (and, replayed by the harness, on the
implementation): a failed `annotate` leaves a text selection behind -/
theorem annotate_fail_not_noop : ¬ FullStatement := by
  intro hf
  let s0 : State := (State.empty.addRes "r" 8).2
  have hw : WF s0 := wf_step _ (.addRes "r" 8) wf_empty
  have := hf s0 (.annotate (some "a") (.complex .dir [.text "r" ⟨.b 1, .b 3⟩, .set "nope"]) []) hw (by decide)
  revert this
  decide

/-! ### Non-vacuity -/
example : ((State.empty.addRes "r" 8).2.addRes "r" 5).1 = .err := by decide
example : ((State.empty.addRes "r" 8).2.rmAnn (.id "x")).1 = .err := by decide

end Stam.C14
