import StamModel.Gen.CborSchema
/-
  C11 — CBOR round trip preserves the store and all of its indices.

  The schema table is regenerated from the source on every run; `schema_wf` is re-checked by the
  kernel against it (a duplicated or missing index, a newly skipped field, a codec given for one
  direction only makes it fail). `derive_roundtrip` is the generic argument: with a well-formed
  schema, decoding what was encoded returns every written field unchanged.
-/
namespace Stam.C11
open Stam.Cbor Stam.Gen

/-- **schema_wf**: every type stored in the binary format has pairwise distinct field indices, skips
only run-time state, and pairs every custom encoder with a decoder -/
theorem schema_wf : cborSchema.all TypeS.wf = true := by decide +kernel

/-- every reverse index and id map of the store is among the written fields -/
theorem indices_are_stored :
    ∀ n ∈ ["annotation_idmap", "resource_idmap", "dataset_idmap", "dataset_data_annotation_map",
           "textrelationmap", "resource_annotation_metamap", "dataset_annotation_metamap",
           "annotation_annotation_map", "key_annotation_metamap", "data_annotation_metamap",
           "annotations", "annotationsets", "resources", "config"],
      ((cborSchema.find? (fun t => t.name == "AnnotationStore")).map
        (fun t => t.fields.any (fun f => f.name == n && !f.skip && f.idx.isSome))) = some true := by
  decide +kernel

theorem resource_indices_are_stored :
    ∀ n ∈ ["text", "textlen", "textselections", "positionindex", "byte2charmap", "id", "intid"],
      ((cborSchema.find? (fun t => t.name == "TextResource")).map
        (fun t => t.fields.any (fun f => f.name == n && !f.skip && f.idx.isSome))) = some true := by
  decide +kernel

theorem dataset_indices_are_stored :
    ∀ n ∈ ["keys", "data", "key_idmap", "data_idmap", "key_data_map", "id", "intid"],
      ((cborSchema.find? (fun t => t.name == "AnnotationDataSet")).map
        (fun t => t.fields.any (fun f => f.name == n && !f.skip && f.idx.isSome))) = some true := by
  decide +kernel

/-! ### the generic round trip -/

variable {V : Type}

theorem lookup_encode (fs : List FieldS) (vals : List V) (hlen : vals.length = fs.length)
    (hnd : (writtenIdx fs).Nodup) :
    ∀ (k : Nat) (f : FieldS) (v : V), fs[k]? = some f → vals[k]? = some v → f.skip = false →
      ∀ i, f.idx = some i → lookupIdx (encodeFields fs vals) i = some v := by
  induction fs generalizing vals with
  | nil => intro k f v hf; simp at hf
  | cons g gs ih =>
    intro k f v hf hv hs i hi
    cases vals with
    | nil => simp at hlen
    | cons w ws =>
      simp only [List.length_cons, Nat.add_right_cancel_iff] at hlen
      cases k with
      | zero =>
        simp only [List.getElem?_cons_zero, Option.some.injEq] at hf hv
        subst hf; subst hv
        simp [encodeFields, lookupIdx, hs, hi]
      | succ k =>
        simp only [List.getElem?_cons_succ] at hf hv
        -- the head field either is skipped, or carries an index different from `i`
        have hnd' : (writtenIdx gs).Nodup := by
          unfold writtenIdx at hnd ⊢
          simp only [List.filter_cons] at hnd
          split at hnd
          · simp only [List.filterMap_cons] at hnd
            split at hnd
            · exact hnd
            · exact (List.nodup_cons.1 hnd).2
          · exact hnd
        have hrec := ih ws hlen hnd' k f v hf hv hs i hi
        have hmem : i ∈ writtenIdx gs := by
          unfold writtenIdx
          rw [List.mem_filterMap]
          exact ⟨f, List.mem_filter.2 ⟨List.mem_of_getElem? hf, by simp [hs]⟩, hi⟩
        simp only [encodeFields, List.zip_cons_cons, List.filterMap_cons]
        by_cases hg : g.skip = true
        · simp only [hg, if_true]; exact hrec
        · simp only [hg]
          cases hgi : g.idx with
          | none => simp only [Option.map_none]; exact hrec
          | some j =>
            simp only [Option.map_some, Bool.false_eq_true, if_false]
            have hji : j ≠ i := by
              intro hc; subst hc
              have hg' : g.skip = false := by simpa using hg
              have hw : writtenIdx (g :: gs) = j :: writtenIdx gs := by
                simp [writtenIdx, List.filter_cons, hg', hgi]
              rw [hw] at hnd
              exact (List.nodup_cons.1 hnd).1 hmem
            simp only [lookupIdx, List.find?_cons]
            have : ((j, w).1 == i) = false := by simpa using hji
            simp only [this]
            exact hrec

/-- **derive_roundtrip**: with a well-formed field list, decode (encode x) returns every written
field with the value it had, and every skipped field with the default -/
theorem derive_roundtrip (fs : List FieldS) (vals : List V) (dflt : V) (hlen : vals.length = fs.length)
    (hwf : fieldsWF fs = true) :
    ∀ (k : Nat) (f : FieldS) (v : V), fs[k]? = some f → vals[k]? = some v →
      (decodeFields fs (encodeFields fs vals) dflt)[k]? = some (some (if f.skip then dflt else v)) := by
  intro k f v hf hv
  simp only [fieldsWF, Bool.and_eq_true, List.all_eq_true, decide_eq_true_eq] at hwf
  obtain ⟨⟨h1, h2⟩, _⟩ := hwf
  simp only [decodeFields, List.getElem?_map, hf, Option.map_some]
  by_cases hs : f.skip = true
  · simp [hs]
  · have hs' : f.skip = false := by simpa using hs
    have hi := h1 f (List.mem_of_getElem? hf)
    simp only [hs', Bool.false_or] at hi
    obtain ⟨i, hi⟩ := Option.isSome_iff_exists.1 hi
    simp only [hs', Bool.false_eq_true, if_false, hi, Option.bind_some]
    rw [lookup_encode fs vals hlen (by simpa using h2) k f v hf hv hs' i hi]

/-- applied to the generated table: every struct of the binary format round-trips field by field -/
theorem every_struct_roundtrips (t : TypeS) (ht : t ∈ cborSchema) (vals : List V) (dflt : V)
    (hlen : vals.length = t.fields.length) :
    ∀ (k : Nat) (f : FieldS) (v : V), t.fields[k]? = some f → vals[k]? = some v →
      (decodeFields t.fields (encodeFields t.fields vals) dflt)[k]? = some (some (if f.skip then dflt else v)) := by
  have hall := schema_wf
  rw [List.all_eq_true] at hall
  have := hall t ht
  simp only [TypeS.wf, Bool.and_eq_true] at this
  exact derive_roundtrip t.fields vals dflt hlen this.1.1.1

/-- the whole record at once: decoding what was encoded is the record itself, with the skipped fields at their
default — as one equation between lists, not field by field -/
theorem derive_roundtrip_record (fs : List FieldS) (vals : List V) (dflt : V) (hlen : vals.length = fs.length)
    (hwf : fieldsWF fs = true) :
    decodeFields fs (encodeFields fs vals) dflt
      = (fs.zip vals).map (fun p => some (if p.1.skip then dflt else p.2)) := by
  apply List.ext_getElem?
  intro k
  by_cases hk : k < fs.length
  · have hf : fs[k]? = some fs[k] := List.getElem?_eq_getElem hk
    have hv : vals[k]? = some (vals[k]'(by omega)) := List.getElem?_eq_getElem (by omega)
    rw [derive_roundtrip fs vals dflt hlen hwf k _ _ hf hv]
    have hz : (fs.zip vals)[k]? = some (fs[k], vals[k]'(by omega)) := List.getElem?_zip_eq_some.2 ⟨hf, hv⟩
    simp [List.getElem?_map, hz]
  · have h1 : (decodeFields fs (encodeFields fs vals) dflt)[k]? = none := by
      apply List.getElem?_eq_none; simp only [decodeFields, List.length_map]; omega
    have h2 : ((fs.zip vals).map (fun p => some (if p.1.skip then dflt else p.2)))[k]? = none := by
      apply List.getElem?_eq_none; simp only [List.length_map, List.length_zip]; omega
    rw [h1, h2]

/-- enum dispatch: minicbor writes a variant's tag and the decoder takes the first variant carrying that tag. With
pairwise distinct tags the variant found for the tag of `v` is `v` — a duplicated `#[n(k)]` on two variants (which
still compiles) is what this excludes -/
theorem variant_dispatch : ∀ (vs : List VariantS) (v : VariantS) (i : Nat),
    (vs.filterMap (·.idx)).Nodup → v ∈ vs → v.idx = some i →
    vs.find? (fun w => w.idx == some i) = some v := by
  intro vs
  induction vs with
  | nil => intro v i _ hm; cases hm
  | cons w rest ih =>
    intro v i hnd hm hi
    rw [List.find?_cons]
    rcases List.mem_cons.mp hm with rfl | hm'
    · simp [hi]
    · by_cases hw : w.idx = some i
      · -- then `i` occurs twice among the tags
        exfalso
        have : i ∈ rest.filterMap (·.idx) := List.mem_filterMap.2 ⟨v, hm', hi⟩
        simp only [List.filterMap_cons, hw, List.nodup_cons] at hnd
        exact hnd.1 this
      · have hnd' : (rest.filterMap (·.idx)).Nodup := by
          cases hwi : w.idx with
          | none => simpa [List.filterMap_cons, hwi] using hnd
          | some j => simp only [List.filterMap_cons, hwi, List.nodup_cons] at hnd; exact hnd.2
        have : (w.idx == some i) = false := by simpa using hw
        rw [this]
        exact ih v i hnd' hm' hi

/-- applied to the generated table: every variant of every enum of the binary format is found again by its tag, and
its fields round-trip as a record -/
theorem every_variant_roundtrips (t : TypeS) (ht : t ∈ cborSchema) (v : VariantS) (hv : v ∈ t.variants)
    (vals : List V) (dflt : V) (hlen : vals.length = v.fields.length) :
    (∃ i, v.idx = some i ∧ t.variants.find? (fun w => w.idx == some i) = some v) ∧
    decodeFields v.fields (encodeFields v.fields vals) dflt = vals.map some := by
  have hall := schema_wf
  rw [List.all_eq_true] at hall
  have hwf := hall t ht
  simp only [TypeS.wf, Bool.and_eq_true, List.all_eq_true, decide_eq_true_eq] at hwf
  obtain ⟨⟨_, hvar⟩, hnd⟩ := hwf
  obtain ⟨⟨hidx, hfw⟩, hnoskip⟩ := hvar v hv
  obtain ⟨i, hi⟩ := Option.isSome_iff_exists.1 hidx
  refine ⟨⟨i, hi, variant_dispatch t.variants v i hnd hv hi⟩, ?_⟩
  rw [derive_roundtrip_record v.fields vals dflt hlen hfw]
  apply List.ext_getElem?
  intro k
  simp only [List.getElem?_map]
  by_cases hk : k < v.fields.length
  · have hf : v.fields[k]? = some v.fields[k] := List.getElem?_eq_getElem hk
    have hvk : vals[k]? = some (vals[k]'(by omega)) := List.getElem?_eq_getElem (by omega)
    have hns := hnoskip _ (List.mem_of_getElem? hf)
    have hns' : (v.fields[k]).skip = false := by simpa using hns
    have hz : (v.fields.zip vals)[k]? = some (v.fields[k], vals[k]'(by omega)) :=
      List.getElem?_zip_eq_some.2 ⟨hf, hvk⟩
    simp [hz, hvk, hns']
  · have h1 : (v.fields.zip vals)[k]? = none := by
      apply List.getElem?_eq_none; simp only [List.length_zip]; omega
    have h2 : vals[k]? = none := by apply List.getElem?_eq_none; omega
    simp [h1, h2]

/-! ### Non-vacuity -/
example : (cborSchema.filter (fun t => !t.variants.isEmpty)).length > 3 := by decide +kernel
example : cborSchema.length > 20 ∧ (cborSchema.find? (fun t => t.name == "TextSelection")).isSome = true := by decide +kernel
example : fieldsWF [⟨"a", some 0, false, none, none, "u8"⟩, ⟨"b", some 0, false, none, none, "u8"⟩] = false := by decide

end Stam.C11
