import StamModel.Gen.CborSchema
/-
  C11 — CBOR round trip preserves the store and all of its indices.

  The schema table is regenerated from the source on every run; `schema_wf` is re-checked by the
  kernel against it (a duplicated or missing index, a newly skipped field, a codec given for one
  direction only makes it fail). `derive_roundtrip` is the generic argument: with a well-formed
  schema, decoding what was encoded returns every written field unchanged.
-/
namespace Stam.C11
open Stam.Cbor Stam.Gen

/-- **schema_wf**: every type stored in the binary format has pairwise distinct field indices, skips
only run-time state, and pairs every custom encoder with a decoder -/
theorem schema_wf : cborSchema.all TypeS.wf = true := by decide +kernel

/-- every reverse index and id map of the store is among the written fields -/
theorem indices_are_stored :
    ∀ n ∈ ["annotation_idmap", "resource_idmap", "dataset_idmap", "dataset_data_annotation_map",
           "textrelationmap", "resource_annotation_metamap", "dataset_annotation_metamap",
           "annotation_annotation_map", "key_annotation_metamap", "data_annotation_metamap",
           "annotations", "annotationsets", "resources", "config"],
      ((cborSchema.find? (fun t => t.name == "AnnotationStore")).map
        (fun t => t.fields.any (fun f => f.name == n && !f.skip && f.idx.isSome))) = some true := by
  decide +kernel

theorem resource_indices_are_stored :
    ∀ n ∈ ["text", "textlen", "textselections", "positionindex", "byte2charmap", "id", "intid"],
      ((cborSchema.find? (fun t => t.name == "TextResource")).map
        (fun t => t.fields.any (fun f => f.name == n && !f.skip && f.idx.isSome))) = some true := by
  decide +kernel

theorem dataset_indices_are_stored :
    ∀ n ∈ ["keys", "data", "key_idmap", "data_idmap", "key_data_map", "id", "intid"],
      ((cborSchema.find? (fun t => t.name == "AnnotationDataSet")).map
        (fun t => t.fields.any (fun f => f.name == n && !f.skip && f.idx.isSome))) = some true := by
  decide +kernel

/-! ### the generic round trip -/

variable {V : Type}

theorem lookup_encode (fs : List FieldS) (vals : List V) (hlen : vals.length = fs.length)
    (hnd : (writtenIdx fs).Nodup) :
    ∀ (k : Nat) (f : FieldS) (v : V), fs[k]? = some f → vals[k]? = some v → f.skip = false →
      ∀ i, f.idx = some i → lookupIdx (encodeFields fs vals) i = some v := by
  induction fs generalizing vals with
  | nil => intro k f v hf; simp at hf
  | cons g gs ih =>
    intro k f v hf hv hs i hi
    cases vals with
    | nil => simp at hlen
    | cons w ws =>
      simp only [List.length_cons, Nat.add_right_cancel_iff] at hlen
      cases k with
      | zero =>
        simp only [List.getElem?_cons_zero, Option.some.injEq] at hf hv
        subst hf; subst hv
        simp [encodeFields, lookupIdx, hs, hi]
      | succ k =>
        simp only [List.getElem?_cons_succ] at hf hv
        -- the head field either is skipped, or carries an index different from `i`
        have hnd' : (writtenIdx gs).Nodup := by
          unfold writtenIdx at hnd ⊢
          simp only [List.filter_cons] at hnd
          split at hnd
          · simp only [List.filterMap_cons] at hnd
            split at hnd
            · exact hnd
            · exact (List.nodup_cons.1 hnd).2
          · exact hnd
        have hrec := ih ws hlen hnd' k f v hf hv hs i hi
        have hmem : i ∈ writtenIdx gs := by
          unfold writtenIdx
          rw [List.mem_filterMap]
          exact ⟨f, List.mem_filter.2 ⟨List.mem_of_getElem? hf, by simp [hs]⟩, hi⟩
        simp only [encodeFields, List.zip_cons_cons, List.filterMap_cons]
        by_cases hg : g.skip = true
        · simp only [hg, if_true]; exact hrec
        · simp only [hg]
          cases hgi : g.idx with
          | none => simp only [Option.map_none]; exact hrec
          | some j =>
            simp only [Option.map_some, Bool.false_eq_true, if_false]
            have hji : j ≠ i := by
              intro hc; subst hc
              have hg' : g.skip = false := by simpa using hg
              have hw : writtenIdx (g :: gs) = j :: writtenIdx gs := by
                simp [writtenIdx, List.filter_cons, hg', hgi]
              rw [hw] at hnd
              exact (List.nodup_cons.1 hnd).1 hmem
            simp only [lookupIdx, List.find?_cons]
            have : ((j, w).1 == i) = false := by simpa using hji
            simp only [this]
            exact hrec

/-- **derive_roundtrip**: with a well-formed field list, decode (encode x) returns every written
field with the value it had, and every skipped field with the default -/
theorem derive_roundtrip (fs : List FieldS) (vals : List V) (dflt : V) (hlen : vals.length = fs.length)
    (hwf : fieldsWF fs = true) :
    ∀ (k : Nat) (f : FieldS) (v : V), fs[k]? = some f → vals[k]? = some v →
      (decodeFields fs (encodeFields fs vals) dflt)[k]? = some (some (if f.skip then dflt else v)) := by
  intro k f v hf hv
  simp only [fieldsWF, Bool.and_eq_true, List.all_eq_true, decide_eq_true_eq] at hwf
  obtain ⟨⟨h1, h2⟩, _⟩ := hwf
  simp only [decodeFields, List.getElem?_map, hf, Option.map_some]
  by_cases hs : f.skip = true
  · simp [hs]
  · have hs' : f.skip = false := by simpa using hs
    have hi := h1 f (List.mem_of_getElem? hf)
    simp only [hs', Bool.false_or] at hi
    obtain ⟨i, hi⟩ := Option.isSome_iff_exists.1 hi
    simp only [hs', Bool.false_eq_true, if_false, hi, Option.bind_some]
    rw [lookup_encode fs vals hlen (by simpa using h2) k f v hf hv hs' i hi]

/-- applied to the generated table: every struct of the binary format round-trips field by field -/
theorem every_struct_roundtrips (t : TypeS) (ht : t ∈ cborSchema) (vals : List V) (dflt : V)
    (hlen : vals.length = t.fields.length) :
    ∀ (k : Nat) (f : FieldS) (v : V), t.fields[k]? = some f → vals[k]? = some v →
      (decodeFields t.fields (encodeFields t.fields vals) dflt)[k]? = some (some (if f.skip then dflt else v)) := by
  have hall := schema_wf
  rw [List.all_eq_true] at hall
  have := hall t ht
  simp only [TypeS.wf, Bool.and_eq_true] at this
  exact derive_roundtrip t.fields vals dflt hlen this.1.1.1

/-! ### Non-vacuity -/
example : cborSchema.length > 20 ∧ (cborSchema.find? (fun t => t.name == "TextSelection")).isSome = true := by decide +kernel
example : fieldsWF [⟨"a", some 0, false, none, none, "u8"⟩, ⟨"b", some 0, false, none, none, "u8"⟩] = false := by decide

end Stam.C11
