import StamModel.Props.C19
/-
  C19 — temporary identifiers in a document that is merged into a store which holds annotations already
  (`with_file`, `merge_json_str`, an `@include`d sub-store): what is there is never overwritten or cut off, whatever
  numbers the document carries.
-/
namespace Stam.C19
open Stam Stam.UT

/-- merged into an empty store, the loop is the loop on a fresh store -/
theorem loadInto_zero (canAlloc : Nat → Bool) : ∀ (items : List (Option Nat)) (slots : Nat),
    loadInto canAlloc 0 slots items = load canAlloc slots items := by
  intro items
  induction items with
  | nil => intro slots; rfl
  | cons it rest ih =>
    intro slots
    cases it with
    | none => simp only [loadInto, load, ih]
    | some h =>
      simp only [loadInto, load, Nat.add_zero]
      by_cases c1 : slots > h
      · simp [c1]
      · simp only [c1, if_false]
        have : max h slots = h := by omega
        rw [this, ih]

/-- **what is there stays**: every item of the merged document lands at or beyond the slots in use when the merge began
(and each beyond the one before it), so no annotation that was there is overwritten and the vector is never cut
back — whatever temporary identifiers the document carries -/
theorem loadInto_above (canAlloc : Nat → Bool) (pre : Nat) : ∀ (items : List (Option Nat)) (slots : Nat) (land : List Nat),
    loadInto canAlloc pre slots items = some land → (∀ x ∈ land, slots ≤ x) ∧ land.Pairwise (· < ·) ∧ land.length = items.length := by
  intro items
  induction items with
  | nil => intro slots land h; simp only [loadInto, Option.some.injEq] at h; subst h; simp
  | cons it rest ih =>
    intro slots land h
    cases it with
    | none =>
      simp only [loadInto, Option.map_eq_some_iff] at h
      obtain ⟨l', hl', rfl⟩ := h
      obtain ⟨a, b, c⟩ := ih (slots + 1) l' hl'
      refine ⟨?_, ?_, by simp [c]⟩
      · intro x hx
        rcases List.mem_cons.mp hx with rfl | hx'
        · exact Nat.le_refl _
        · have := a x hx'; omega
      · rw [List.pairwise_cons]; exact ⟨fun x hx => by have := a x hx; omega, b⟩
    | some hd =>
      simp only [loadInto] at h
      split at h
      · cases h
      · split at h
        · cases h
        · simp only [Option.map_eq_some_iff] at h
          obtain ⟨l', hl', rfl⟩ := h
          obtain ⟨a, b, c⟩ := ih (max hd slots + 1) l' hl'
          refine ⟨?_, ?_, by simp [c]⟩
          · intro x hx
            rcases List.mem_cons.mp hx with rfl | hx'
            · omega
            · have := a x hx'; omega
          · rw [List.pairwise_cons]; exact ⟨fun x hx => by have := a x hx; omega, b⟩

/-- an item with a temporary identifier beyond the slots in use lands exactly there -/
theorem loadInto_lands (canAlloc : Nat → Bool) (pre slots h : Nat) (rest : List (Option Nat)) (land : List Nat)
    (hh : slots ≤ h) (hl : loadInto canAlloc pre slots (some h :: rest) = some land) : land.head? = some h := by
  simp only [loadInto] at hl
  split at hl
  · cases hl
  · split at hl
    · cases hl
    · simp only [Option.map_eq_some_iff] at hl
      obtain ⟨l', _, rfl⟩ := hl
      have : max h slots = h := by omega
      simp [this]

/-! ### completeness: what a store can write is accepted, and lands where it was -/

/-- **every document a store writes loads back handle for handle**: a store lists its items in handle order, so the
temporary identifiers are strictly increasing (with gaps where items were removed); such a document is *accepted*
(the other theorems only speak about accepted documents) as long as the allocator grants the gaps, and every item
lands at exactly the handle it names -/
theorem load_accepts_increasing : ∀ (hs : List Nat) (slots : Nat),
    (∀ x ∈ hs, slots ≤ x) → hs.Pairwise (· < ·) → load (fun _ => true) slots (hs.map some) = some hs := by
  intro hs
  induction hs with
  | nil => intro slots _ _; rfl
  | cons h rest ih =>
    intro slots hge hp
    have hle : slots ≤ h := hge h (List.mem_cons_self)
    rw [List.pairwise_cons] at hp
    have hrec := ih (h + 1) (fun x hx => by have := hp.1 x hx; omega) hp.2
    simp only [List.map_cons, load]
    have c1 : ¬ slots > h := by omega
    simp [c1, hrec]

/-- the same for a document without any temporary identifier (every item has a public one, or the writer left them
out): the items land densely, one after the other, from the first free slot — and nothing is ever refused -/
theorem loadInto_dense (canAlloc : Nat → Bool) (pre : Nat) : ∀ (n slots : Nat),
    loadInto canAlloc pre slots (List.replicate n none) = some (List.range' slots n) := by
  intro n
  induction n with
  | zero => intro slots; rfl
  | succ n ih => intro slots; simp only [List.replicate_succ, loadInto, ih, List.range'_succ, Option.map_some]

/-- **more there already never makes a merge fail**: a document accepted by a store that held `pre` annotations when
the merge began is accepted, with the same landing, when it held more (the bound on a temporary identifier only
loosens) — so the refusal `slots > h + pre` is the only place `pre` matters -/
theorem loadInto_mono_pre (canAlloc : Nat → Bool) (pre pre' : Nat) (hpre : pre ≤ pre') :
    ∀ (items : List (Option Nat)) (slots : Nat) (land : List Nat),
    loadInto canAlloc pre slots items = some land → loadInto canAlloc pre' slots items = some land := by
  intro items
  induction items with
  | nil => intro slots land h; exact h
  | cons it rest ih =>
    intro slots land h
    cases it with
    | none =>
      simp only [loadInto, Option.map_eq_some_iff] at h ⊢
      obtain ⟨l', hl', rfl⟩ := h
      exact ⟨l', ih _ _ hl', rfl⟩
    | some hd =>
      simp only [loadInto] at h ⊢
      split at h
      · cases h
      · rename_i c1
        split at h
        · cases h
        · rename_i c2
          have c1' : ¬ slots > hd + pre' := by omega
          simp only [c1', if_false, c2]
          simp only [Option.map_eq_some_iff] at h ⊢
          obtain ⟨l', hl', rfl⟩ := h
          exact ⟨l', ih _ _ hl', rfl⟩

example : load (fun _ => true) 0 ([0, 2, 3, 7].map some) = some [0, 2, 3, 7] := by decide
example : loadInto (fun _ => false) 2 2 (List.replicate 3 none) = some [2, 3, 4] := by decide

/-! ### non-vacuity: a document written by a store with three annotations (`!A0`, `!A2` after a removal), merged into a
store that holds two -/
example : loadInto (fun _ => true) 2 2 [some 0, some 2, none] = some [2, 3, 4] := by decide
example : loadInto (fun _ => true) 2 2 [some 5, some 1] = none := by decide

end Stam.C19
