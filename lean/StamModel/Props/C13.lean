import StamModel.Rel
import StamModel.Lemmas.RelGen
/-
  C13 — Text-selection relations have their documented algebraic meaning.
  Property theorems only. All statements quantify over every `Nat` range, every resource and
  every operator/modifier combination; nothing is bounded.
-/
namespace Stam.C13
open Stam

set_option hygiene false in
/-- case split on an operator, naming the modifiers `al`, `ng`, `l`, `w` -/
macro "op_cases " op:ident : tactic =>
  `(tactic| rcases $op:ident with ⟨al, ng⟩ | ⟨al, ng⟩ | ⟨al, ng⟩ | ⟨al, ng, _ | l⟩ | ⟨al, ng, _ | l⟩ | ⟨al, ng, _ | l⟩
      | ⟨al, ng, w⟩ | ⟨al, ng, w⟩ | ⟨al, ng⟩ | ⟨al, ng⟩ | ⟨al, ng⟩ | ⟨al, ng⟩)

/-! ### Each relation coincides with its interval-arithmetic definition -/

theorem equals_def (al : Bool) (a c : TSel) (r : Res) :
    test (.equals al false) a c r = true ↔ (a.b = c.b ∧ a.e = c.e) := by
  cases a; cases c; simp [test, relPos, Op.neg]

theorem inset_def (al : Bool) (a c : TSel) (r : Res) :
    test (.inset al false) a c r = true ↔ (a.b = c.b ∧ a.e = c.e) := by
  cases a; cases c; simp [test, relPos, Op.neg]

/-- On non-empty ranges overlap is exactly "each begins before the other ends". -/
theorem overlaps_def (al : Bool) (a c : TSel) (r : Res) (ha : a.b < a.e) (hc : c.b < c.e) :
    test (.overlaps al false) a c r = true ↔ (a.b < c.e ∧ c.b < a.e) := by
  simp [test, relPos, Op.neg]; omega

/-- In general (zero-width ranges included) overlap is: proper overlap, or one embeds the other. -/
theorem overlaps_def_general (al : Bool) (a c : TSel) (r : Res) (ha : a.WF) (hc : c.WF) :
    test (.overlaps al false) a c r = true ↔
      ((a.b < c.e ∧ c.b < a.e ∧ a.b < a.e ∧ c.b < c.e) ∨ (a.b ≤ c.b ∧ c.e ≤ a.e) ∨ (c.b ≤ a.b ∧ a.e ≤ c.e)) := by
  unfold TSel.WF at *; simp [test, relPos, Op.neg]; omega

theorem embeds_def (al : Bool) (a c : TSel) (r : Res) :
    test (.embeds al false) a c r = true ↔ (a.b ≤ c.b ∧ c.e ≤ a.e) := by
  simp [test, relPos, Op.neg]

theorem embedded_def (al : Bool) (a c : TSel) (r : Res) :
    test (.embedded al false none) a c r = true ↔ (c.b ≤ a.b ∧ a.e ≤ c.e) := by
  simp [test, relPos, Op.neg]

theorem embedded_limit_def (al : Bool) (l : Nat) (a c : TSel) (r : Res) :
    test (.embedded al false (some l)) a c r = true ↔
      (c.b ≤ a.b ∧ a.e ≤ c.e ∧ a.b ≤ c.b + l ∧ c.e ≤ a.e + l) := by
  simp [test, relPos, Op.neg]; omega

theorem before_def (al : Bool) (a c : TSel) (r : Res) :
    test (.before al false none) a c r = true ↔ a.e ≤ c.b := by
  simp [test, relPos, Op.neg]

theorem before_limit_def (al : Bool) (l : Nat) (a c : TSel) (r : Res) :
    test (.before al false (some l)) a c r = true ↔ (a.e ≤ c.b ∧ c.b ≤ a.e + l) := by
  simp [test, relPos, Op.neg]; omega

theorem after_def (al : Bool) (a c : TSel) (r : Res) :
    test (.after al false none) a c r = true ↔ c.e ≤ a.b := by
  simp [test, relPos, Op.neg]

theorem after_limit_def (al : Bool) (l : Nat) (a c : TSel) (r : Res) :
    test (.after al false (some l)) a c r = true ↔ (c.e ≤ a.b ∧ a.b ≤ c.e + l) := by
  simp [test, relPos, Op.neg]; omega

theorem precedes_exact_def (al : Bool) (a c : TSel) (r : Res) :
    test (.precedes al false false) a c r = true ↔ a.e = c.b := by
  simp [test, relPos, Op.neg]

theorem succeeds_exact_def (al : Bool) (a c : TSel) (r : Res) :
    test (.succeeds al false false) a c r = true ↔ c.e = a.b := by
  simp [test, relPos, Op.neg]

/-- the text between `x` and `y` exists and consists of whitespace only -/
def GapIsWhitespace (r : Res) (x y : Nat) : Prop :=
  x ≤ y ∧ y ≤ r.len ∧ ∀ i, x ≤ i → i < y → r.ws[i]? = some true

theorem gapWs_iff (r : Res) (x y : Nat) : r.gapWs x y = true ↔ GapIsWhitespace r x y := by
  unfold Res.gapWs GapIsWhitespace Res.len
  simp only [Bool.and_eq_true, decide_eq_true_eq, List.all_eq_true, id]
  constructor
  · rintro ⟨⟨h1, h2⟩, h3⟩
    refine ⟨h1, h2, ?_⟩
    intro i hi1 hi2
    have hlt : i < r.ws.length := by omega
    have : r.ws[i] ∈ (r.ws.drop x).take (y - x) := by
      rw [List.mem_take_iff_getElem]
      refine ⟨i - x, ?_, ?_⟩
      · simp; omega
      · simp; congr 1; omega
    have := h3 _ this
    simp [List.getElem?_eq_getElem hlt, this]
  · rintro ⟨h1, h2, h3⟩
    refine ⟨⟨h1, h2⟩, ?_⟩
    intro b hb
    rw [List.mem_take_iff_getElem] at hb
    obtain ⟨j, hj, rfl⟩ := hb
    simp at hj
    have := h3 (x + j) (by omega) (by omega)
    simp only [List.getElem_drop]
    rw [List.getElem?_eq_getElem (by omega)] at this
    simpa using this

theorem precedes_ws_def (al : Bool) (a c : TSel) (r : Res) :
    test (.precedes al false true) a c r = true ↔ (a.e = c.b ∨ (a.e < c.b ∧ GapIsWhitespace r a.e c.b)) := by
  simp only [test, relPos, Op.neg]
  by_cases h : c.b ≥ a.e
  · by_cases h0 : c.b - a.e = 0
    · simp [h, h0]; omega
    · have : a.e < c.b := by omega
      simp [h, h0, gapWs_iff, this]; omega
  · simp [h]; omega

theorem succeeds_ws_def (al : Bool) (a c : TSel) (r : Res) :
    test (.succeeds al false true) a c r = true ↔ (c.e = a.b ∨ (c.e < a.b ∧ GapIsWhitespace r c.e a.b)) := by
  simp only [test, relPos, Op.neg]
  by_cases h : a.b ≥ c.e
  · by_cases h0 : a.b - c.e = 0
    · simp [h, h0]; omega
    · have : c.e < a.b := by omega
      simp [h, h0, gapWs_iff, this]; omega
  · simp [h]; omega

theorem samebegin_def (al : Bool) (a c : TSel) (r : Res) :
    test (.samebegin al false) a c r = true ↔ a.b = c.b := by
  simp [test, relPos, Op.neg]

theorem sameend_def (al : Bool) (a c : TSel) (r : Res) :
    test (.sameend al false) a c r = true ↔ a.e = c.e := by
  simp [test, relPos, Op.neg]

theorem samerange_def (al : Bool) (a c : TSel) (r : Res) :
    test (.samerange al false) a c r = true ↔ (a.b = c.b ∧ a.e = c.e) := by
  simp [test, relPos, Op.neg]

/-! ### Converses and symmetry (any modifiers; the limit and whitespace flag are shared) -/

theorem embeds_conv_embedded (al al' ng : Bool) (a c : TSel) (r : Res) :
    test (.embeds al ng) a c r = test (.embedded al' ng none) c a r := by
  simp [test, relPos, Op.neg]

theorem before_conv_after (al al' ng : Bool) (l : Option Nat) (a c : TSel) (r : Res) :
    test (.before al ng l) a c r = test (.after al' ng l) c a r := by
  cases l <;> cases ng <;> simp [test, relPos, Op.neg]

theorem precedes_conv_succeeds (al al' ng w : Bool) (a c : TSel) (r : Res) :
    test (.precedes al ng w) a c r = test (.succeeds al' ng w) c a r := by
  cases w <;> cases ng <;> simp [test, relPos, Op.neg, eq_comm]

theorem equals_symm (al ng : Bool) (a c : TSel) (r : Res) :
    test (.equals al ng) a c r = test (.equals al ng) c a r := by
  cases ng <;> simp [test, relPos, Op.neg, eq_comm]

theorem overlaps_symm (al ng : Bool) (a c : TSel) (r : Res) :
    test (.overlaps al ng) a c r = test (.overlaps al ng) c a r := by
  have h : relPos (.overlaps al ng) a c r = relPos (.overlaps al ng) c a r := by
    simp only [relPos]
    rw [Bool.eq_iff_iff]
    simp only [Bool.or_eq_true, Bool.and_eq_true, decide_eq_true_eq]
    omega
  simp [test, h]

/-! ### Equality implies the weaker relations -/

theorem equals_imp (al : Bool) (a c : TSel) (r : Res)
    (h : test (.equals al false) a c r = true) :
    test (.embeds al false) a c r = true ∧ test (.embedded al false none) a c r = true ∧
    test (.samebegin al false) a c r = true ∧ test (.sameend al false) a c r = true ∧
    test (.samerange al false) a c r = true ∧ test (.inset al false) a c r = true ∧
    (a.WF → test (.overlaps al false) a c r = true) := by
  have := (equals_def al a c r).1 h
  obtain ⟨h1, h2⟩ := this
  refine ⟨?_, ?_, ?_, ?_, ?_, ?_, ?_⟩ <;> simp [test, relPos, Op.neg, TSel.WF, h1, h2]
  · cases a; cases c; simp_all

/-! ### A negated relation is the exact complement -/

theorem negate_compl (op : Op) (a c : TSel) (r : Res) :
    test op.toggleNeg a c r = !(test op a c r) := by
  op_cases op <;> cases ng <;> simp [test, relPos, Op.neg, Op.toggleNeg]

theorem negate_compl_testSet (op : Op) (a : TSel) (s : TSet) (r : Res) :
    testSet op.toggleNeg a s r = !(testSet op a s r) := by
  op_cases op <;> cases ng <;> cases al <;>
    simp [testSet, relSetPos, relPos, Op.neg, Op.toggleNeg]

theorem negate_compl_setTest (op : Op) (s : TSet) (c : TSel) (r : Res) (hne : s.items ≠ []) :
    setTest op.toggleNeg s c r = !(setTest op s c r) := by
  have : s.items.isEmpty = false := by simpa using hne
  op_cases op <;> cases ng <;> cases al <;>
    simp [setTest, setRelPos, relPos, Op.neg, Op.toggleNeg, Op.pick, this]

theorem negate_compl_setTestSet (op : Op) (s t : TSet) (r : Res) (hne : s.items ≠ []) :
    setTestSet op.toggleNeg s t r = !(setTestSet op s t r) := by
  have : s.items.isEmpty = false := by simpa using hne
  op_cases op <;> cases ng <;> cases al <;>
    simp [setTestSet, setRelSetPos, relSetPos, relPos, Op.neg, Op.toggleNeg, Op.pick, this]

theorem toggleNeg_involutive (op : Op) : op.toggleNeg.toggleNeg = op := by
  cases op <;> simp [Op.toggleNeg]
theorem toggleAll_involutive (op : Op) : op.toggleAll.toggleAll = op := by
  cases op <;> simp [Op.toggleAll]
theorem toggleNeg_toggleAll_comm (op : Op) : op.toggleNeg.toggleAll = op.toggleAll.toggleNeg := by
  cases op <;> simp [Op.toggleNeg, Op.toggleAll]
/-- `toggle_all` and `with_limit` do not change a pairwise test's operands. -/
theorem toggleAll_pairwise (op : Op) (a c : TSel) (r : Res) :
    test op.toggleAll a c r = test op a c r := by
  op_cases op <;> cases ng <;> simp [test, relPos, Op.neg, Op.toggleAll]

/-! ### A test on singleton sets equals the test on their single members -/

/-- `rightmost` is what its documentation says — an item with the highest end — for every set, sorted or not (the
fast path that took the last item of a sorted set was a defect: a sorted set is ordered by begin first) -/
theorem rightmostScan_max : ∀ (l : List TSel) (acc : Option TSel),
    ∃ m, rightmostScan l acc = (if l = [] then acc else some m) ∧ (l ≠ [] → (∀ x ∈ l, x.e ≤ m.e) ∧ (∀ a, acc = some a → a.e ≤ m.e) ∧ (m ∈ l ∨ acc = some m))
  | [], acc => ⟨⟨0, 0⟩, by simp [rightmostScan], fun h => absurd rfl h⟩
  | x :: xs, none => by
    obtain ⟨m, hm, hprop⟩ := rightmostScan_max xs (some x)
    by_cases hxs : xs = []
    · subst hxs
      exact ⟨x, by simp [rightmostScan], fun _ => ⟨by simp, by simp, Or.inl (by simp)⟩⟩
    · obtain ⟨h1, h2, h3⟩ := hprop hxs
      refine ⟨m, by simp [rightmostScan, hm, hxs], fun _ => ⟨?_, by simp, ?_⟩⟩
      · intro y hy
        rcases List.mem_cons.mp hy with rfl | hy
        · exact h2 _ rfl
        · exact h1 y hy
      · rcases h3 with h | h
        · exact Or.inl (List.mem_cons_of_mem _ h)
        · simp only [Option.some.injEq] at h; subst h; exact Or.inl (by simp)
  | x :: xs, some a => by
    obtain ⟨m, hm, hprop⟩ := rightmostScan_max xs (if x.e > a.e then some x else some a)
    by_cases hxs : xs = []
    · subst hxs
      by_cases hgt : x.e > a.e
      · exact ⟨x, by simp [rightmostScan, hgt], fun _ => ⟨by simp, by intro b hb; cases hb; omega, Or.inl (by simp)⟩⟩
      · exact ⟨a, by simp [rightmostScan, hgt], fun _ => ⟨by intro y hy; simp at hy; subst hy; omega, by intro b hb; cases hb; omega, Or.inr rfl⟩⟩
    · obtain ⟨h1, h2, h3⟩ := hprop hxs
      refine ⟨m, by simp [rightmostScan, hm, hxs], fun _ => ⟨?_, ?_, ?_⟩⟩
      · intro y hy
        rcases List.mem_cons.mp hy with rfl | hy
        · by_cases hgt : y.e > a.e
          · exact h2 y (by simp [hgt])
          · have := h2 a (by simp [hgt]); omega
        · exact h1 y hy
      · intro b hb
        simp only [Option.some.injEq] at hb
        subst hb
        by_cases hgt : x.e > a.e
        · have := h2 x (by simp [hgt]); omega
        · exact h2 a (by simp [hgt])
      · rcases h3 with h | h
        · exact Or.inl (List.mem_cons_of_mem _ h)
        · by_cases hgt : x.e > a.e
          · simp only [hgt, ↓reduceIte, Option.some.injEq] at h; subst h; exact Or.inl (by simp)
          · simp only [hgt, ↓reduceIte, Option.some.injEq] at h; subst h; exact Or.inr rfl

theorem rightmost_is_max_end (s : TSet) (hne : s.items ≠ []) :
    ∃ m, s.rightmost = some m ∧ m ∈ s.items ∧ ∀ x ∈ s.items, x.e ≤ m.e := by
  obtain ⟨m, hm, hprop⟩ := rightmostScan_max s.items none
  obtain ⟨h1, _, h3⟩ := hprop hne
  refine ⟨m, by simp [TSet.rightmost, hm, hne], ?_, h1⟩
  rcases h3 with h | h
  · exact h
  · cases h

example : (⟨[⟨0, 10⟩, ⟨2, 3⟩], true⟩ : TSet).rightmost = some ⟨0, 10⟩ := by decide

theorem singleton_testSet (op : Op) (a c : TSel) (r : Res) (sorted : Bool) :
    testSet op a ⟨[c], sorted⟩ r = test op a c r := by
  op_cases op <;> cases ng <;> cases al <;> cases sorted <;>
    first
    | (cases w <;>
        simp [testSet, test, relSetPos, relPos, Op.neg, minBegin, maxEnd, TSet.leftmost, TSet.rightmost,
          leftmostScan, rightmostScan, eq_comm])
    | simp [testSet, test, relSetPos, relPos, Op.neg, minBegin, maxEnd, TSet.leftmost, TSet.rightmost,
        leftmostScan, rightmostScan]

theorem singleton_setTest (op : Op) (a c : TSel) (r : Res) (sorted : Bool) :
    setTest op ⟨[a], sorted⟩ c r = test op a c r := by
  op_cases op <;> cases ng <;> cases al <;> cases sorted <;>
    simp [setTest, test, setRelPos, Op.pick, Op.neg, TSet.leftmost, TSet.rightmost,
        leftmostScan, rightmostScan]

theorem singleton_setTestSet (op : Op) (a c : TSel) (r : Res) (s1 s2 : Bool) :
    setTestSet op ⟨[a], s1⟩ ⟨[c], s2⟩ r = test op a c r := by
  op_cases op <;> cases ng <;> cases al <;> cases s1 <;> cases s2 <;>
    first
    | (cases w <;>
        simp [setTestSet, setRelSetPos, test, relSetPos, relPos, Op.pick, Op.neg, minBegin, maxEnd,
          TSet.leftmost, TSet.rightmost, leftmostScan, rightmostScan, eq_comm])
    | (simp [setTestSet, setRelSetPos, test, relSetPos, relPos, Op.pick, Op.neg, minBegin, maxEnd,
          TSet.leftmost, TSet.rightmost, leftmostScan, rightmostScan] <;> (first | (intro h; exact h.symm) | (intro h h2; exact h h2.symm)))

/-- EQUALS between two sets holds both ways round (since 2026-09: the code checks both inclusions, and only those) -/
theorem set_equals_symm (s t : TSet) (r : Res) (al : Bool) (hs : s.items ≠ []) (ht : t.items ≠ []) :
    setTestSet (.equals al false) s t r = setTestSet (.equals al false) t s r := by
  have h1 : s.items.isEmpty = false := by cases hx : s.items with | nil => exact absurd hx hs | cons _ _ => rfl
  have h2 : t.items.isEmpty = false := by cases hx : t.items with | nil => exact absurd hx ht | cons _ _ => rfl
  have e1 : setTestSet (.equals al false) s t r = setRelSetPos (.equals al false) s t r := by simp [setTestSet, h1, Op.neg]
  have e2 : setTestSet (.equals al false) t s r = setRelSetPos (.equals al false) t s r := by simp [setTestSet, h2, Op.neg]
  rw [e1, e2]
  simp only [setRelSetPos]
  rw [Bool.eq_iff_iff]
  simp only [Bool.and_eq_true]
  constructor
  · rintro ⟨ha, hb⟩; exact ⟨hb, ha⟩
  · rintro ⟨ha, hb⟩; exact ⟨hb, ha⟩

/-- EQUALS between two sets does not count stored items: a set that holds a selection twice equals the set that holds
it once -/
theorem set_equals_ignores_repetition (a : TSel) (r : Res) (al : Bool) :
    setTestSet (.equals al false) ⟨[a, a], false⟩ ⟨[a], false⟩ r = true ∧
    setTestSet (.equals al false) ⟨[a], false⟩ ⟨[a, a], false⟩ r = true := by
  cases al <;> simp [setTestSet, setRelSetPos, relSetPos, relPos, Op.neg]

/-- **a singleton set against any set is its member against that set, for EQUALS**: `{a} EQUALS T` holds exactly when
`a EQUALS T` does — when `T` holds `a` and nothing else (since 2026-09: a selection no longer "equals" a larger set that
merely contains it) -/
theorem singleton_left_equals (a : TSel) (t : TSet) (r : Res) (al srt : Bool) :
    setTestSet (.equals al false) ⟨[a], srt⟩ t r = testSet (.equals al false) a t r := by
  simp only [setTestSet, testSet, setRelSetPos, relSetPos, relPos, Op.neg, List.isEmpty_cons, Bool.false_eq_true, ↓reduceIte,
    List.all_cons, List.all_nil, Bool.and_true, List.any_cons, List.any_nil, Bool.or_false]
  rw [Bool.eq_iff_iff]
  simp only [Bool.and_eq_true, List.any_eq_true, List.all_eq_true, decide_eq_true_eq, Bool.not_eq_true']
  constructor
  · rintro ⟨⟨c, hc, _⟩, hall⟩
    refine ⟨?_, fun x hx => (hall x hx).symm⟩
    cases h : t.items with
    | nil => rw [h] at hc; simp at hc
    | cons _ _ => rfl
  · rintro ⟨hne, hall⟩
    refine ⟨?_, fun x hx => (hall x hx).symm⟩
    cases h : t.items with
    | nil => simp [h] at hne
    | cons x xs => exact ⟨x, by simp, hall x (by simp [h])⟩

/-- a selection does not equal a larger set that contains it -/
example : testSet (.equals false false) ⟨0, 2⟩ ⟨[⟨0, 2⟩, ⟨3, 5⟩], false⟩ ⟨[]⟩ = false ∧
    testSet (.inset false false) ⟨0, 2⟩ ⟨[⟨0, 2⟩, ⟨3, 5⟩], false⟩ ⟨[]⟩ = true := by decide

/-! ### What does not hold on sets

The converses and symmetries above are theorems about pairs of ranges. On sets the code reads a relation without the
`all` modifier as "every member of the left set stands in the relation to some member of the right set", and with
`all` and a limit it reduces the left set to one extreme member: neither reading is symmetric. The property asks for
the laws "for every pair of sets"; the following are the counter-examples on the model, which the harness finds on the
implementation (`set-converse/…`, known findings of C13). -/

/-- OVERLAPS on sets is not symmetric: `{[0,1)}` against `{[0,1), [1,2)}` -/
theorem set_overlaps_not_symmetric :
    setTestSet (.overlaps false false) ⟨[⟨0, 1⟩], false⟩ ⟨[⟨0, 1⟩, ⟨1, 2⟩], false⟩ ⟨[]⟩ = true ∧
    setTestSet (.overlaps false false) ⟨[⟨0, 1⟩, ⟨1, 2⟩], false⟩ ⟨[⟨0, 1⟩], false⟩ ⟨[]⟩ = false := by decide

/-- EMBEDS on sets is not the converse of EMBEDDED: `{[0,1)}` against `{[0,1), [3,5)}` -/
theorem set_embeds_not_converse_of_embedded :
    setTestSet (.embeds false false) ⟨[⟨0, 1⟩], false⟩ ⟨[⟨0, 1⟩, ⟨3, 5⟩], false⟩ ⟨[]⟩ = true ∧
    setTestSet (.embedded false false none) ⟨[⟨0, 1⟩, ⟨3, 5⟩], false⟩ ⟨[⟨0, 1⟩], false⟩ ⟨[]⟩ = false := by decide

/-- BEFORE on sets is not the converse of AFTER: `{[0,1), [6,7)}` against `{[3,4)}` -/
theorem set_before_not_converse_of_after :
    setTestSet (.after false false none) ⟨[⟨3, 4⟩], false⟩ ⟨[⟨0, 1⟩, ⟨6, 7⟩], false⟩ ⟨[]⟩ = true ∧
    setTestSet (.before false false none) ⟨[⟨0, 1⟩, ⟨6, 7⟩], false⟩ ⟨[⟨3, 4⟩], false⟩ ⟨[]⟩ = false := by decide

/-! ### Non-vacuity: concrete instances on which the hypotheses hold and the tests are not constant -/

example : test (.overlaps false false) ⟨2, 5⟩ ⟨4, 9⟩ ⟨[]⟩ = true ∧ test (.overlaps false false) ⟨2, 4⟩ ⟨4, 9⟩ ⟨[]⟩ = false := by decide
example : (⟨2, 5⟩ : TSel).WF ∧ test (.equals false false) ⟨2, 5⟩ ⟨2, 5⟩ ⟨[]⟩ = true := by decide
example : test (.precedes false false true) ⟨0, 2⟩ ⟨4, 6⟩ ⟨[false, false, true, true, false, false]⟩ = true
    ∧ test (.precedes false false true) ⟨0, 2⟩ ⟨4, 6⟩ ⟨[false, false, true, false, false, false]⟩ = false := by decide
example : setTestSet (.sameend true true) ⟨[⟨0, 3⟩, ⟨1, 2⟩], false⟩ ⟨[⟨2, 3⟩], false⟩ ⟨[]⟩ = false := by decide

/-! ### Tie to the source: the relation arms are regenerated from `src/textselection.rs` on every run -/

/-- **the model's pairwise test is the source's**: `Stam.Gen.relPos` is what the translator renders from the arms of
`impl TestTextSelection for TextSelection :: test` as they are in /repo now; on every operator without `negate` it
computes what the model (`relPos`, which every theorem above is about) computes. -/
theorem source_arms_are_the_model (op : Op) (a c : TSel) (r : Res) (h : op.neg = false) :
    Gen.relPos op a c r = some (relPos op a c r) := gen_relPos_agrees op a c r h

/-- … and on every operator with `negate` the source has no arm of its own: it negates the arm of `toggle_negate`,
which is what `test` does. -/
theorem source_test_is_the_model (op : Op) (a c : TSel) (r : Res) :
    test op a c r = (if op.neg then (Gen.relPos op.toggleNeg a c r).map (!·) else Gen.relPos op a c r).getD false :=
  gen_test_agrees op a c r

/-- the recursive arm names all twelve operators (none falls through to `unreachable!`) -/
theorem source_negation_arm_complete : Gen.negatedArm.length = 12 := by
  rw [gen_negatedArm_complete]; decide

end Stam.C13
