import StamModel.Gen.JsonTags
import StamModel.Offset
import StamModel.Props.C04
/-
  C05 — STAM JSON round trip preserves the whole model.

  Proved here:
  * `selector_tags_agree` over tables REGENERATED from src/selector.rs on every run: for every
    selector kind the "@type" tag the writer emits names the reader's variant of the same kind,
    every field the reader requires is written, and nothing is written that the reader does not know;
  * the offset part of the round trip: the offset written for a selector (in its own alignment mode)
    reads back to the same absolute range with the same alignment (from C04);
  The document-level round trip (ids, temp-id gap re-creation, stand-off files) is tied by the
  `serial` correspondence family.
-/
namespace Stam.C05
open Stam Stam.Gen

def writeOk (row : String × String × List String) : Bool :=
  let (variant, tag, fields) := row
  -- the tag names the same kind
  tag == variant &&
  (match selectorReads.find? (fun r => r.1 == tag) with
   | none => false
   | some (_, rf) =>
     -- every required field is written, and every written field is known to the reader
     rf.all (fun (n, req) => !req || fields.contains n) && fields.all (fun n => rf.any (fun f => f.1 == n)))

/-- **selector_tags_agree** (generated tables) -/
theorem selector_tags_agree : selectorWrites.all writeOk = true := by decide

/-- all nine selector kinds are covered by the writer and by the reader -/
theorem all_kinds_covered :
    ∀ k ∈ ["ResourceSelector", "TextSelector", "AnnotationSelector", "DataSetSelector", "DataKeySelector",
           "AnnotationDataSelector", "MultiSelector", "CompositeSelector", "DirectionalSelector"],
      selectorWrites.any (fun r => r.1 == k) = true ∧ selectorReads.any (fun r => r.1 == k) = true := by decide

/-- the reader's tags are pairwise distinct (a tag determines the kind) -/
theorem reader_tags_distinct : (selectorReads.map (·.1)).Nodup := by decide

/-- **offsets survive**: the offset a text selector is written with (its own alignment mode) reads
back to the same absolute range, in the same mode -/
theorem written_offset_reads_back (m : OffsetMode) (len b e : Nat) (hbe : b ≤ e) (he : e ≤ len) :
    resolveRes len (reportRes m len b e) = .ok (b, e) ∧ (reportRes m len b e).mode = m :=
  ⟨(C04.rereport_res m len b e hbe he).2.2, (C04.rereport_res m len b e hbe he).2.1⟩

/-- and relative to an annotation's text -/
theorem written_relative_offset_reads_back (m : OffsetMode) (pb pe b e : Nat) (h1 : pb ≤ b) (h2 : b ≤ e) (h3 : e ≤ pe) :
    ∃ o, reportRel m pb pe b e = .ok (some o) ∧ o.mode = m ∧ resolveSub pb pe o = .ok (b, e) := by
  obtain ⟨o, r1, _, r3, r4⟩ := C04.rereport_rel m pb pe b e h1 h2 h3
  exact ⟨o, r1, r3, r4⟩

/-! ### Non-vacuity: a writer table with the defect found on the original tree is rejected -/
example : writeOk ("AnnotationDataSelector", "DataKeySelector", ["annotationset", "data"]) = false := by decide

end Stam.C05
