import StamModel.Props.C19
import StamModel.Props.C15Dec
/-
  C19 / C03 — the text of a temporary identifier: what a store writes for an item without public identifier
  (`!A<handle>`, `!D<handle>`, … with the handle in decimal) is read back by `resolve_temp_id` as that handle, for
  every handle and every upper-case kind letter; with `load_accepts_increasing` (Props/C19Merge.lean) the numbers a
  store writes are thereby both parsed and placed.
-/
namespace Stam.C19
open Stam Stam.UT Stam.Csv.Dec

theorem digitChar_isDigit (d : Nat) (h : d < 10) : (digitChar d).isDigit = true := by
  match d, h with
  | 0, _ | 1, _ | 2, _ | 3, _ | 4, _ | 5, _ | 6, _ | 7, _ | 8, _ | 9, _ => decide
  | n + 10, h => omega

theorem digitChar_val (d : Nat) (h : d < 10) : (digitChar d).toNat - 48 = d := by
  match d, h with
  | 0, _ | 1, _ | 2, _ | 3, _ | 4, _ | 5, _ | 6, _ | 7, _ | 8, _ | 9, _ => decide
  | n + 10, h => omega

theorem foldl_digits (ds : List Nat) (hd : ∀ d ∈ ds, d < 10) (a : Nat) :
    (ds.map digitChar).foldl (fun n c => n * 10 + (c.toNat - 48)) a = ds.foldl (fun n d => n * 10 + d) a := by
  induction ds generalizing a with
  | nil => rfl
  | cons d ds ih =>
    simp only [List.map_cons, List.foldl_cons, digitChar_val d (hd d (by simp))]
    exact ih (fun x hx => hd x (by simp [hx])) _

/-- the loader's own digit reader (`digitsToNat?`: all ASCII digits, then a fold) reads decimal text back -/
theorem digitsToNat_showDec (n : Nat) : digitsToNat? (showDec n) = some n := by
  have hlt : ∀ d ∈ (digitsLE (n + 1) n).reverse, d < 10 := fun d hd => digitsLE_lt (n + 1) n d (by simpa using hd)
  have hne : showDec n ≠ [] := by simp [showDec, digitsLE_ne_nil]
  have hall : (showDec n).all Char.isDigit = true := by
    simp only [showDec, List.all_eq_true, List.mem_map]
    rintro c ⟨d, hd, rfl⟩
    exact digitChar_isDigit d (hlt d hd)
  have hval : (showDec n).foldl (fun n c => n * 10 + (c.toNat - 48)) 0 = n := by
    unfold showDec
    rw [foldl_digits _ hlt 0, foldl_reverse_ofLE, ofLE_digitsLE (n + 1) n (by omega)]
  cases hs : showDec n with
  | nil => exact absurd hs hne
  | cons c cs =>
    rw [hs] at hall hval
    simp only [digitsToNat?, hall, if_true, hval]

/-- **temporary identifier round trip**: `!`, an upper-case kind letter, the handle in decimal — resolves to the handle -/
theorem tempId_roundtrip (kind : Char) (hk : isUpperChar kind = true) (n : Nat) :
    resolveTempId ('!' :: kind :: showDec n) = some n := by
  simp only [resolveTempId, hk, if_true, digitsToNat_showDec]

example : resolveTempId ('!' :: 'A' :: showDec 4096) = some 4096 := by decide
example : isUpperChar 'A' = true ∧ isUpperChar 'D' = true ∧ isUpperChar 'a' = false := by decide

end Stam.C19
