import StamModel.JsonSel
import StamModel.Props.C15Row
/-
  C05 — the STAM JSON of an annotation's target reads back as the target that was written.

  Proved here, about `StamModel/JsonSel.lean`:
   * `target_json_roundtrip` — for every target (a simple selector of any of the six kinds, with or without an offset,
     or a Multi/Composite/Directional selector over any number of simple selectors), with ANY identifiers (JSON strings
     carry every text) and any cursors of either alignment, the reader builds from the JSON written exactly the target
     that was written: kind, identifiers, offsets with their alignment, order of the sub-selectors.
-/
namespace Stam.C05
open Stam Stam.Csv Stam.JS Stam.C15

/-! ### the member names are pairwise different where it matters -/
theorem k1 : (kType == kValue) = false := by decide
theorem k2 : (kType == kBegin) = false := by decide
theorem k3 : (kType == kEnd) = false := by decide
theorem k4 : (kBegin == kEnd) = false := by decide
theorem k5 : (kType == kResource) = false := by decide
theorem k6 : (kType == kOffset) = false := by decide
theorem k7 : (kResource == kOffset) = false := by decide
theorem k8 : (kType == kAnnotation) = false := by decide
theorem k9 : (kAnnotation == kOffset) = false := by decide
theorem k10 : (kType == kSet) = false := by decide
theorem k11 : (kType == kKey) = false := by decide
theorem k12 : (kSet == kKey) = false := by decide
theorem k13 : (kType == kData) = false := by decide
theorem k14 : (kSet == kData) = false := by decide
theorem k15 : (kType == kSelectors) = false := by decide

theorem cursor_json_roundtrip (c : Cursor) : readCursor (cursorJ c) = .ok c := by
  cases c with
  | b n =>
    simp only [cursorJ, readCursor, field, List.find?, beq_self_eq_true, k1, Option.map_some]
    have : ¬ ((n : Int) < 0) := by omega
    simp [this]
  | e z =>
    simp only [cursorJ, readCursor, field, List.find?, beq_self_eq_true, k1, Option.map_some]
    have hne : ¬ ("EndAlignedCursor".toList = "BeginAlignedCursor".toList) := by decide
    simp [hne]

theorem offset_json_roundtrip (b e : Cursor) : readOffset (offsetJ b e) = .ok (b, e) := by
  simp only [offsetJ, readOffset, field, List.find?, beq_self_eq_true, k2, k3, k4, Option.map_some, cursor_json_roundtrip, Out.bind]

theorem sub_json_roundtrip (s : Sub) : JS.readSub (subJ s) = .ok s := by
  cases s with
  | text r b e =>
    simp only [subJ, JS.readSub, strField, field, List.find?, beq_self_eq_true, k5, k6, k7, Option.map_some, Out.bind,
      parseKind_kindStr, offset_json_roundtrip]
  | ann a off =>
    cases off with
    | none =>
      simp only [subJ, JS.readSub, strField, field, List.find?, beq_self_eq_true, k8, k6, k9, Option.map_some, Option.map_none, Out.bind,
        parseKind_kindStr]
    | some p =>
      obtain ⟨b, e⟩ := p
      simp only [subJ, JS.readSub, strField, field, List.find?, beq_self_eq_true, k8, k6, k9, Option.map_some, Out.bind,
        parseKind_kindStr, offsetJ, readOffset, k2, k3, k4, cursor_json_roundtrip]
  | res r =>
    simp only [subJ, JS.readSub, strField, field, List.find?, beq_self_eq_true, k5, Option.map_some, Out.bind, parseKind_kindStr]
  | set d =>
    simp only [subJ, JS.readSub, strField, field, List.find?, beq_self_eq_true, k10, Option.map_some, Out.bind, parseKind_kindStr]
  | key d k =>
    simp only [subJ, JS.readSub, strField, field, List.find?, beq_self_eq_true, k10, k11, k12, Option.map_some, Out.bind, parseKind_kindStr]
  | data d x =>
    simp only [subJ, JS.readSub, strField, field, List.find?, beq_self_eq_true, k10, k13, k14, Option.map_some, Out.bind, parseKind_kindStr]

theorem subs_json_roundtrip (subs : List Sub) : readSubsJ (subs.map subJ) = .ok subs := by
  induction subs with
  | nil => rfl
  | cons s rest ih => simp only [List.map_cons, readSubsJ, sub_json_roundtrip, ih, Out.bind]

/-- **C05 (target round trip).** -/
theorem target_json_roundtrip (t : Target) (ht : match t with | .complex k _ => k.isComplex = true | .simple _ => True) :
    readTargetJ (targetJ t) = .ok t := by
  cases t with
  | simple s =>
    cases s with
    | text r b e =>
      have hs := sub_json_roundtrip (.text r b e)
      simp only [subJ] at hs
      simp only [targetJ, subJ, readTargetJ, strField, field, List.find?, beq_self_eq_true, Option.map_some, Out.bind, parseKind_kindStr,
        Kind.isComplex, Bool.false_eq_true, ↓reduceIte, hs]
    | ann a off =>
      cases off with
      | none =>
        have hs := sub_json_roundtrip (.ann a none)
        simp only [subJ] at hs
        simp only [targetJ, subJ, readTargetJ, strField, field, List.find?, beq_self_eq_true, Option.map_some, Out.bind, parseKind_kindStr,
          Kind.isComplex, Bool.false_eq_true, ↓reduceIte, hs]
      | some p =>
        obtain ⟨b, e⟩ := p
        have hs := sub_json_roundtrip (.ann a (some (b, e)))
        simp only [subJ] at hs
        simp only [targetJ, subJ, readTargetJ, strField, field, List.find?, beq_self_eq_true, Option.map_some, Out.bind, parseKind_kindStr,
          Kind.isComplex, Bool.false_eq_true, ↓reduceIte, hs]
    | res r =>
      have hs := sub_json_roundtrip (.res r)
      simp only [subJ] at hs
      simp only [targetJ, subJ, readTargetJ, strField, field, List.find?, beq_self_eq_true, Option.map_some, Out.bind, parseKind_kindStr,
        Kind.isComplex, Bool.false_eq_true, ↓reduceIte, hs]
    | set d =>
      have hs := sub_json_roundtrip (.set d)
      simp only [subJ] at hs
      simp only [targetJ, subJ, readTargetJ, strField, field, List.find?, beq_self_eq_true, Option.map_some, Out.bind, parseKind_kindStr,
        Kind.isComplex, Bool.false_eq_true, ↓reduceIte, hs]
    | key d k =>
      have hs := sub_json_roundtrip (.key d k)
      simp only [subJ] at hs
      simp only [targetJ, subJ, readTargetJ, strField, field, List.find?, beq_self_eq_true, Option.map_some, Out.bind, parseKind_kindStr,
        Kind.isComplex, Bool.false_eq_true, ↓reduceIte, hs]
    | data d x =>
      have hs := sub_json_roundtrip (.data d x)
      simp only [subJ] at hs
      simp only [targetJ, subJ, readTargetJ, strField, field, List.find?, beq_self_eq_true, Option.map_some, Out.bind, parseKind_kindStr,
        Kind.isComplex, Bool.false_eq_true, ↓reduceIte, hs]
  | complex k subs =>
    simp only at ht
    simp only [targetJ, readTargetJ, strField, field, List.find?, beq_self_eq_true, k15, Option.map_some, Out.bind, parseKind_kindStr, ht,
      ↓reduceIte, subs_json_roundtrip]

/-! ### non-vacuity -/
example : readTargetJ (targetJ (.complex .dir [.ann "a\"1".toList (some (.b 0, .e 0)), .key "s".toList "k;x".toList]))
    = .ok (.complex .dir [.ann "a\"1".toList (some (.b 0, .e 0)), .key "s".toList "k;x".toList]) :=
  target_json_roundtrip _ rfl

/-! ### data values -/

theorem t_ne (a b : String) (h : a.toList ≠ b.toList) : ¬ (a.toList = b.toList) := h

mutual
/-- **C05 (typed values).** Every data value — null, booleans, integers of any size, float and datetime literals,
strings, lists nested to any depth — written as STAM JSON is read back as the same value of the same type. -/
theorem value_json_roundtrip (isDt : S → Bool) (showF : Int → S) :
    ∀ (v : DVJ) (fuel : Nat), v.depth ≤ fuel → (∀ l ∈ dtLits v, isDt l = true) → readValue isDt showF fuel (valueJ v) = .ok v
  | .null, fuel, hf, _ => by
    obtain ⟨f, rfl⟩ : ∃ f, fuel = f + 1 := ⟨fuel - 1, by simp [DVJ.depth] at hf; omega⟩
    simp [valueJ, readValue, field, List.find?]
  | .bool b, fuel, hf, _ => by
    obtain ⟨f, rfl⟩ : ∃ f, fuel = f + 1 := ⟨fuel - 1, by simp [DVJ.depth] at hf; omega⟩
    have h1 : ¬ ("Bool".toList = "Null".toList) := by decide
    simp [valueJ, tagged, readValue, field, List.find?, k1, h1]
  | .int z, fuel, hf, _ => by
    obtain ⟨f, rfl⟩ : ∃ f, fuel = f + 1 := ⟨fuel - 1, by simp [DVJ.depth] at hf; omega⟩
    have h1 : ¬ ("Int".toList = "Null".toList) := by decide
    have h2 : ¬ ("Int".toList = "Bool".toList) := by decide
    simp [valueJ, tagged, readValue, field, List.find?, k1, h1, h2]
  | .flt l, fuel, hf, _ => by
    obtain ⟨f, rfl⟩ : ∃ f, fuel = f + 1 := ⟨fuel - 1, by simp [DVJ.depth] at hf; omega⟩
    have h1 : ¬ ("Float".toList = "Null".toList) := by decide
    have h2 : ¬ ("Float".toList = "Bool".toList) := by decide
    have h3 : ¬ ("Float".toList = "Int".toList) := by decide
    simp [valueJ, tagged, readValue, field, List.find?, k1, h1, h2, h3]
  | .str s, fuel, hf, _ => by
    obtain ⟨f, rfl⟩ : ∃ f, fuel = f + 1 := ⟨fuel - 1, by simp [DVJ.depth] at hf; omega⟩
    have h1 : ¬ ("String".toList = "Null".toList) := by decide
    have h2 : ¬ ("String".toList = "Bool".toList) := by decide
    have h3 : ¬ ("String".toList = "Int".toList) := by decide
    have h4 : ¬ ("String".toList = "Float".toList) := by decide
    simp [valueJ, tagged, readValue, field, List.find?, k1, h1, h2, h3, h4]
  | .dt l, fuel, hf, hd => by
    obtain ⟨f, rfl⟩ : ∃ f, fuel = f + 1 := ⟨fuel - 1, by simp [DVJ.depth] at hf; omega⟩
    have h1 : ¬ ("Datetime".toList = "Null".toList) := by decide
    have h2 : ¬ ("Datetime".toList = "Bool".toList) := by decide
    have h3 : ¬ ("Datetime".toList = "Int".toList) := by decide
    have h4 : ¬ ("Datetime".toList = "Float".toList) := by decide
    have h5 : ¬ ("Datetime".toList = "String".toList) := by decide
    have hl : isDt l = true := hd l (by simp [dtLits])
    simp [valueJ, tagged, readValue, field, List.find?, k1, h1, h2, h3, h4, h5, hl]
  | .list xs, fuel, hf, hd => by
    obtain ⟨f, rfl⟩ : ∃ f, fuel = f + 1 := ⟨fuel - 1, by simp [DVJ.depth] at hf; omega⟩
    have h1 : ¬ ("List".toList = "Null".toList) := by decide
    have h2 : ¬ ("List".toList = "Bool".toList) := by decide
    have h3 : ¬ ("List".toList = "Int".toList) := by decide
    have h4 : ¬ ("List".toList = "Float".toList) := by decide
    have h5 : ¬ ("List".toList = "String".toList) := by decide
    have h6 : ¬ ("List".toList = "Datetime".toList) := by decide
    have hxs := values_json_roundtrip isDt showF xs f (by simp [DVJ.depth] at hf; omega) (by intro l hl; exact hd l (by simpa [dtLits] using hl))
    simp [valueJ, tagged, readValue, field, List.find?, k1, h1, h2, h3, h4, h5, h6, hxs, Out.bind]
theorem values_json_roundtrip (isDt : S → Bool) (showF : Int → S) :
    ∀ (xs : List DVJ) (fuel : Nat), depths xs ≤ fuel → (∀ l ∈ dtLitss xs, isDt l = true) →
      readValues isDt showF fuel (valuesJ xs) = .ok xs
  | [], fuel, _, _ => by simp [valuesJ, readValues]
  | x :: xs, fuel, hf, hd => by
    have hx := value_json_roundtrip isDt showF x fuel (by simp [depths] at hf; omega) (by intro l hl; exact hd l (by simp [dtLitss, hl]))
    have hr := values_json_roundtrip isDt showF xs fuel (by simp [depths] at hf; omega) (by intro l hl; exact hd l (by simp [dtLitss, hl]))
    simp [valuesJ, readValues, hx, hr, Out.bind]
end

end Stam.C05
