import StamModel.Lemmas.Utf8
/-
  C12 — Codepoint/byte conversion is exact and tuning knobs never change answers.
  `ws` is the list of UTF-8 widths of the text's code points; `idx` / `b2c` are arbitrary
  well-formed indices (whatever the milestone interval and the annotations made so far put there).
-/
namespace Stam.C12
open Stam

/-- every entry of the position index is a true (charpos, bytepos) pair of the text -/
def IdxWF (idx : List (Nat × Nat)) (ws : List Nat) : Prop :=
  ∀ e ∈ idx, e.1 ≤ ws.length ∧ e.2 = prefixB ws e.1
/-- every entry of byte2charmap is a true (bytepos, charpos) pair of the text -/
def B2cWF (b2c : List (Nat × Nat)) (ws : List Nat) : Prop :=
  ∀ e ∈ b2c, e.2 ≤ ws.length ∧ e.1 = prefixB ws e.2

/-- **utf8byte agrees with naive counting** for every position `0 ≤ p ≤ length`, whatever the index -/
theorem utf8byte_naive (idx : List (Nat × Nat)) (ws : List Nat) (hw : WidthsWF ws) (hi : IdxWF idx ws)
    (p : Nat) (hp : p ≤ ws.length) : utf8byte idx ws p = .ok (prefixB ws p) := by
  unfold utf8byte
  cases hf : idx.find? (fun e => e.1 = p) with
  | some e =>
    have hm := List.mem_of_find?_eq_some hf
    have he := List.find?_some hf
    simp at he
    simp only []
    rw [(hi e hm).2, he]
  | none =>
    simp only []
    cases hpb : prevBelow idx p with
    | some e =>
      obtain ⟨bpos, bbyte⟩ := e
      obtain ⟨hm, hlt⟩ := prevBelow_mem idx p _ hpb
      obtain ⟨hle, hb⟩ := hi _ hm
      simp only [] at hle hb hlt
      simp only []
      rw [hb, dropBytes_prefix ws hw bpos hle]
      simp only []
      by_cases hl : ws.length = p
      · simp only [hl, if_true]
        rw [← hl, prefixB_length]
        have := prefixB_add_sum_drop ws bpos
        rw [this]
      · simp only [hl, if_false]
        have hlt2 : bpos + (p - bpos) < ws.length := by omega
        rw [charScan_drop ws bpos (p - bpos) hlt2]
        simp only []
        have e1 : bpos + (p - bpos) = p := by omega
        rw [e1]
        have := prefixB_strict ws hw bpos p hlt hp
        congr 1; omega
    | none =>
      simp only []
      by_cases hl : ws.length = p
      · simp only [hl, if_true]; rw [← hl, prefixB_length]
      · simp only [hl, if_false]
        have := charScan_drop ws 0 p (by omega)
        simp [prefixB_zero] at this
        rw [this]

/-- **positions beyond the text are an error** (not a number, not a panic) -/
theorem utf8byte_oob (idx : List (Nat × Nat)) (ws : List Nat) (hw : WidthsWF ws) (hi : IdxWF idx ws)
    (p : Nat) (hp : ws.length < p) : utf8byte idx ws p = .err "CursorOutOfBounds" := by
  unfold utf8byte
  cases hf : idx.find? (fun e => e.1 = p) with
  | some e =>
    have hm := List.mem_of_find?_eq_some hf
    have he := List.find?_some hf
    simp at he
    have := (hi e hm).1
    omega
  | none =>
    simp only []
    cases hpb : prevBelow idx p with
    | some e =>
      obtain ⟨bpos, bbyte⟩ := e
      obtain ⟨hm, hlt⟩ := prevBelow_mem idx p _ hpb
      obtain ⟨hle, hb⟩ := hi _ hm
      simp only [] at hle hb hlt
      simp only []
      rw [hb, dropBytes_prefix ws hw bpos hle]
      simp only []
      have hl : ¬ ws.length = p := by omega
      simp only [hl, if_false]
      rw [charScan_none _ _ (by simp; omega)]
    | none =>
      simp only []
      have hl : ¬ ws.length = p := by omega
      simp only [hl, if_false]
      rw [charScan_none _ _ (by omega)]

/-- **tuning knobs never change answers**: any two well-formed indices (any milestone interval, any
set of annotations made before) give identical results for every position, in or out of range. -/
theorem utf8byte_index_irrelevant (idx idx' : List (Nat × Nat)) (ws : List Nat) (hw : WidthsWF ws)
    (hi : IdxWF idx ws) (hi' : IdxWF idx' ws) (p : Nat) : utf8byte idx ws p = utf8byte idx' ws p := by
  by_cases hp : p ≤ ws.length
  · rw [utf8byte_naive idx ws hw hi p hp, utf8byte_naive idx' ws hw hi' p hp]
  · rw [utf8byte_oob idx ws hw hi p (by omega), utf8byte_oob idx' ws hw hi' p (by omega)]

/-- **byte → code point on a boundary** -/
theorem charpos_of_boundary (b2c : List (Nat × Nat)) (ws : List Nat) (hw : WidthsWF ws) (hi : B2cWF b2c ws)
    (p : Nat) (hp : p ≤ ws.length) : utf8byteToCharpos b2c ws (prefixB ws p) = .ok p := by
  unfold utf8byteToCharpos
  cases hf : b2c.find? (fun e => e.1 = prefixB ws p) with
  | some e =>
    have hm := List.mem_of_find?_eq_some hf
    have he := List.find?_some hf
    simp at he
    obtain ⟨h1, h2⟩ := hi e hm
    simp only []
    rw [prefixB_inj ws hw e.2 p h1 hp (by omega)]
  | none =>
    simp only []
    cases hpb : prevBelow b2c (prefixB ws p) with
    | some e =>
      obtain ⟨bbyte, bchar⟩ := e
      obtain ⟨hm, hlt⟩ := prevBelow_mem b2c _ _ hpb
      obtain ⟨hle, hb⟩ := hi _ hm
      simp only [] at hle hb hlt
      simp only []
      rw [hb, dropBytes_prefix ws hw bchar hle]
      simp only []
      have hsum := prefixB_add_sum_drop ws bchar
      have hcp : bchar < p := by
        rcases Nat.lt_or_ge bchar p with h | h
        · exact h
        · rcases Nat.eq_or_lt_of_le h with h' | h'
          · subst h'; omega
          · have := prefixB_strict ws hw p bchar h' hle; omega
      by_cases hl : p = ws.length
      · have : prefixB ws bchar + (ws.drop bchar).sum = prefixB ws p := by
          rw [hsum, hl, prefixB_length]
        simp only [this, if_true, hl]
      · have hne : ¬ (prefixB ws bchar + (ws.drop bchar).sum = prefixB ws p) := by
          rw [hsum]
          have := prefixB_strict ws hw p ws.length (by omega) (by omega)
          rw [prefixB_length] at this
          omega
        simp only [hne, if_false]
        have hk : p - bchar < (ws.drop bchar).length := by simp; omega
        have hbs := byteScan_boundary (ws.drop bchar) (hw.drop bchar) (p - bchar) 0 hk
        have hadd := prefixB_add ws bchar (p - bchar)
        have e1 : bchar + (p - bchar) = p := by omega
        rw [e1] at hadd
        have e2 : prefixB ws p - prefixB ws bchar = prefixB (ws.drop bchar) (p - bchar) := by omega
        rw [e2, hbs]
        simp only []
        congr 1; omega
    | none =>
      simp only []
      by_cases hl : p = ws.length
      · have : ws.sum = prefixB ws p := by rw [hl, prefixB_length]
        simp only [this, if_true, hl]
      · have hne : ¬ (ws.sum = prefixB ws p) := by
          have := prefixB_strict ws hw p ws.length (by omega) (by omega)
          rw [prefixB_length] at this
          omega
        simp only [hne, if_false]
        have := byteScan_boundary ws hw p 0 (by omega)
        rw [this]; simp

/-- **a byte position inside a character (or past the end) is an error** -/
theorem charpos_inside_char (b2c : List (Nat × Nat)) (ws : List Nat) (hw : WidthsWF ws) (hi : B2cWF b2c ws)
    (byte : Nat) (hb : ∀ p, p ≤ ws.length → prefixB ws p ≠ byte) :
    utf8byteToCharpos b2c ws byte = .err "CursorOutOfBounds" := by
  unfold utf8byteToCharpos
  cases hf : b2c.find? (fun e => e.1 = byte) with
  | some e =>
    have hm := List.mem_of_find?_eq_some hf
    have he := List.find?_some hf
    simp at he
    obtain ⟨h1, h2⟩ := hi e hm
    exact absurd (by omega) (hb e.2 h1)
  | none =>
    simp only []
    cases hpb : prevBelow b2c byte with
    | some e =>
      obtain ⟨bbyte, bchar⟩ := e
      obtain ⟨hm, hlt⟩ := prevBelow_mem b2c _ _ hpb
      obtain ⟨hle, hbb⟩ := hi _ hm
      simp only [] at hle hbb hlt
      simp only []
      rw [hbb, dropBytes_prefix ws hw bchar hle]
      simp only []
      have hsum := prefixB_add_sum_drop ws bchar
      have hne : ¬ (prefixB ws bchar + (ws.drop bchar).sum = byte) := by
        rw [hsum]; intro h; exact hb ws.length (by omega) (by rw [prefixB_length]; exact h)
      simp only [hne, if_false]
      cases hs : byteScan (ws.drop bchar) (byte - prefixB ws bchar) 0 with
      | none => rfl
      | some j =>
        obtain ⟨k, hk, hp, _⟩ := byteScan_some _ _ _ _ hs
        simp at hk
        have hadd := prefixB_add ws bchar k
        exact absurd (by omega) (hb (bchar + k) (by omega))
    | none =>
      simp only []
      have hne : ¬ (ws.sum = byte) := by
        intro h; exact hb ws.length (by omega) (by rw [prefixB_length]; exact h)
      simp only [hne, if_false]
      cases hs : byteScan ws byte 0 with
      | none => rfl
      | some j =>
        obtain ⟨k, hk, hp, _⟩ := byteScan_some _ _ _ _ hs
        exact absurd hp (hb k (by omega))

/-- **round trip**: position → byte → position is the identity on `0 … length` inclusive -/
theorem inverse (idx b2c : List (Nat × Nat)) (ws : List Nat) (hw : WidthsWF ws) (hi : IdxWF idx ws)
    (hb : B2cWF b2c ws) (p : Nat) (hp : p ≤ ws.length) :
    ∃ byte, utf8byte idx ws p = .ok byte ∧ utf8byteToCharpos b2c ws byte = .ok p :=
  ⟨prefixB ws p, utf8byte_naive idx ws hw hi p hp, charpos_of_boundary b2c ws hw hb p hp⟩

theorem charpos_index_irrelevant (b2c b2c' : List (Nat × Nat)) (ws : List Nat) (hw : WidthsWF ws)
    (hi : B2cWF b2c ws) (hi' : B2cWF b2c' ws) (byte : Nat) :
    utf8byteToCharpos b2c ws byte = utf8byteToCharpos b2c' ws byte := by
  by_cases h : ∃ p, p ≤ ws.length ∧ prefixB ws p = byte
  · obtain ⟨p, hp, rfl⟩ := h
    rw [charpos_of_boundary b2c ws hw hi p hp, charpos_of_boundary b2c' ws hw hi' p hp]
  · have h' : ∀ p, p ≤ ws.length → prefixB ws p ≠ byte := fun p hp he => h ⟨p, hp, he⟩
    rw [charpos_inside_char b2c ws hw hi byte h', charpos_inside_char b2c' ws hw hi' byte h']

/-- **sub-selections**: positions relative to a selection `[b,e)` convert to bytes relative to the
selection's own text, and positions beyond the selection are an error -/
theorem utf8byteSub_naive (idx : List (Nat × Nat)) (ws : List Nat) (hw : WidthsWF ws) (hi : IdxWF idx ws)
    (b e rel : Nat) (hbe : b ≤ e) (he : e ≤ ws.length) (hr : rel ≤ e - b) :
    utf8byteSub idx ws b e rel = .ok (prefixB (ws.drop b) rel) := by
  unfold utf8byteSub
  have h1 : ¬ rel > e - b := by omega
  simp only [h1, if_false]
  rw [utf8byte_naive idx ws hw hi b (by omega), utf8byte_naive idx ws hw hi (b + rel) (by omega)]
  simp only []
  rw [prefixB_add]; congr 1; omega

theorem utf8byteSub_oob (idx : List (Nat × Nat)) (ws : List Nat) (b e rel : Nat) (hr : e - b < rel) :
    utf8byteSub idx ws b e rel = .err "CursorOutOfBounds" := by
  unfold utf8byteSub; simp [hr]

theorem charposSub_of_boundary (idx b2c : List (Nat × Nat)) (ws : List Nat) (hw : WidthsWF ws)
    (hi : IdxWF idx ws) (hb : B2cWF b2c ws) (b e rel : Nat) (hbe : b ≤ e) (he : e ≤ ws.length) (hr : rel ≤ e - b) :
    utf8byteToCharposSub idx b2c ws b e (prefixB (ws.drop b) rel) = .ok rel := by
  unfold utf8byteToCharposSub
  rw [utf8byte_naive idx ws hw hi b (by omega), utf8byte_naive idx ws hw hi e he]
  simp only []
  have hadd := prefixB_add ws b rel
  have hadd2 := prefixB_add ws b (e - b)
  have e1 : b + (e - b) = e := by omega
  rw [e1] at hadd2
  have hmono : prefixB (ws.drop b) rel ≤ prefixB (ws.drop b) (e - b) := by
    rcases Nat.eq_or_lt_of_le hr with h | h
    · rw [h]; exact Nat.le_refl _
    · exact Nat.le_of_lt (prefixB_strict _ (hw.drop b) rel (e - b) h (by simp; omega))
  have h1 : ¬ (prefixB (ws.drop b) rel > prefixB ws e - prefixB ws b) := by omega
  simp only [h1, if_false]
  rw [← hadd, charpos_of_boundary b2c ws hw hb (b + rel) (by omega)]
  simp

/-- **byte-level text extraction** (used by C04's text_exact): the byte slice
`[utf8byte b, utf8byte e)` consists of exactly the bytes of code points `b … e-1`. -/
theorem slice_bytes (ws : List Nat) (b e : Nat) (hbe : b ≤ e) (he : e ≤ ws.length) :
    ((ws.drop b).take (e - b)).sum = prefixB ws e - prefixB ws b := by
  have := prefixB_add ws b (e - b)
  have e1 : b + (e - b) = e := by omega
  rw [e1] at this
  unfold prefixB at *
  omega

/-! ### Non-vacuity -/
example : WidthsWF [1, 2, 3, 4, 1] ∧ IdxWF [(2, 3), (4, 10)] [1, 2, 3, 4, 1] := by
  refine ⟨by intro w hw; simp at hw; omega, ?_⟩
  intro e he; simp at he; rcases he with rfl | rfl <;> decide
example : utf8byte [(2, 3)] [1, 2, 3, 4, 1] 4 = .ok 10 ∧ utf8byte [] [1, 2, 3, 4, 1] 5 = .ok 11
    ∧ utf8byte [(2, 3)] [1, 2, 3, 4, 1] 6 = .err "CursorOutOfBounds" := by decide
example : utf8byteToCharpos [(3, 2)] [1, 2, 3, 4, 1] 6 = .ok 3 ∧
    utf8byteToCharpos [(3, 2)] [1, 2, 3, 4, 1] 7 = .err "CursorOutOfBounds" := by decide

end Stam.C12
