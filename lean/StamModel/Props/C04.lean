import StamModel.Offset
import StamModel.Lemmas.OffsetGen
/-
  C04 — Offsets resolve to exactly the addressed code points, or are rejected.
-/
namespace Stam.C04
open Stam

/-- the documented meaning: the offset denotes the range `[b,e)` with `0 ≤ b ≤ e ≤ len` -/
def Denotes (len : Nat) (o : Offset) (b e : Nat) : Prop :=
  o.c1.pos len = b ∧ o.c2.pos len = e ∧ b ≤ e ∧ e ≤ len

theorem beginAligned_ok_iff (len : Nat) (c : Cursor) (hc : c.WF) (n : Nat) :
    beginAligned len c = .ok n ↔ (c.pos len = n ∧ n ≤ len) := by
  cases c with
  | b k => simp only [beginAligned, Cursor.pos]; split <;> simp <;> omega
  | e z =>
    simp only [Cursor.WF] at hc
    simp only [beginAligned, Cursor.pos]; split <;> simp <;> omega

theorem beginAligned_never_panics (len : Nat) (c : Cursor) : ∀ m, beginAligned len c ≠ .panic m := by
  intro m; cases c <;> simp only [beginAligned] <;> split <;> simp

/-- **accept_iff (resource)**: an offset is accepted exactly when it denotes `0 ≤ b ≤ e ≤ len`,
and then resolves to exactly that range. -/
theorem accept_iff_res (len : Nat) (o : Offset) (ho : o.WF) (b e : Nat) :
    resolveRes len o = .ok (b, e) ↔ Denotes len o b e := by
  obtain ⟨h1, h2⟩ := ho
  unfold resolveRes Denotes
  cases hb : beginAligned len o.c1 with
  | ok x =>
    have hx := (beginAligned_ok_iff len o.c1 h1 x).1 hb
    cases he : beginAligned len o.c2 with
    | ok y =>
      have hy := (beginAligned_ok_iff len o.c2 h2 y).1 he
      simp only []
      split
      · omega
      · split
        · omega
        · split <;> simp <;> omega
    | err c =>
      simp only []
      constructor
      · intro h; cases h
      · rintro ⟨_, h, _, h'⟩
        have := (beginAligned_ok_iff len o.c2 h2 e).2 ⟨h, h'⟩
        rw [he] at this; cases this
    | panic m => exact absurd he (beginAligned_never_panics _ _ _)
  | err c =>
    simp only []
    constructor
    · intro h; cases h
    · rintro ⟨h, _, h', h''⟩
      have := (beginAligned_ok_iff len o.c1 h1 b).2 ⟨h, by omega⟩
      rw [hb] at this; cases this
  | panic m => exact absurd hb (beginAligned_never_panics _ _ _)

/-- resolution never panics: every offset is either accepted or refused with an error -/
theorem resolveRes_total (len : Nat) (o : Offset) : ∀ m, resolveRes len o ≠ .panic m := by
  intro m
  unfold resolveRes
  cases hb : beginAligned len o.c1 with
  | ok x =>
    cases he : beginAligned len o.c2 with
    | ok y => simp only []; split <;> (try split) <;> (try split) <;> simp
    | err c => simp
    | panic m' => exact absurd he (beginAligned_never_panics _ _ _)
  | err c => simp
  | panic m' => exact absurd hb (beginAligned_never_panics _ _ _)

/-- **reject**: an offset that denotes no valid range is refused with an error -/
theorem reject_res (len : Nat) (o : Offset) (ho : o.WF)
    (h : ¬ ∃ b e, Denotes len o b e) : ∃ c, resolveRes len o = .err c := by
  cases hr : resolveRes len o with
  | ok p => exact absurd ⟨p.1, p.2, (accept_iff_res len o ho p.1 p.2).1 hr⟩ h
  | err c => exact ⟨c, rfl⟩
  | panic m => exact absurd hr (resolveRes_total _ _ _)

/-- meaning of an offset relative to the parent selection `[pb,pe)` -/
def DenotesIn (pb pe : Nat) (o : Offset) (b e : Nat) : Prop :=
  o.c1.pos (pe - pb) + pb = b ∧ o.c2.pos (pe - pb) + pb = e ∧ pb ≤ b ∧ b ≤ e ∧ e ≤ pe

/-- **accept_iff (relative to an annotation's text)** -/
theorem accept_iff_sub (pb pe : Nat) (hp : pb ≤ pe) (o : Offset) (ho : o.WF) (b e : Nat) :
    resolveSub pb pe o = .ok (b, e) ↔ DenotesIn pb pe o b e := by
  obtain ⟨h1, h2⟩ := ho
  unfold resolveSub DenotesIn
  cases hb : beginAligned (pe - pb) o.c1 with
  | ok x =>
    have hx := (beginAligned_ok_iff _ o.c1 h1 x).1 hb
    cases he : beginAligned (pe - pb) o.c2 with
    | ok y =>
      have hy := (beginAligned_ok_iff _ o.c2 h2 y).1 he
      simp only []
      split <;> simp <;> omega
    | err c =>
      simp only []
      constructor
      · intro h; cases h
      · rintro ⟨g1, g2, g3, g4, g5⟩
        have := (beginAligned_ok_iff (pe - pb) o.c2 h2 (e - pb)).2 ⟨by omega, by omega⟩
        rw [he] at this; cases this
    | panic m => exact absurd he (beginAligned_never_panics _ _ _)
  | err c =>
    simp only []
    constructor
    · intro h; cases h
    · rintro ⟨g1, g2, g3, g4, g5⟩
      have := (beginAligned_ok_iff (pe - pb) o.c1 h1 (b - pb)).2 ⟨by omega, by omega⟩
      rw [hb] at this; cases this
  | panic m => exact absurd hb (beginAligned_never_panics _ _ _)

theorem resolveSub_total (pb pe : Nat) (o : Offset) : ∀ m, resolveSub pb pe o ≠ .panic m := by
  intro m
  unfold resolveSub
  cases hb : beginAligned (pe - pb) o.c1 with
  | ok x =>
    cases he : beginAligned (pe - pb) o.c2 with
    | ok y => simp only []; split <;> simp
    | err c => simp
    | panic m' => exact absurd he (beginAligned_never_panics _ _ _)
  | err c => simp
  | panic m' => exact absurd hb (beginAligned_never_panics _ _ _)

theorem reject_sub (pb pe : Nat) (hp : pb ≤ pe) (o : Offset) (ho : o.WF)
    (h : ¬ ∃ b e, DenotesIn pb pe o b e) : ∃ c, resolveSub pb pe o = .err c := by
  cases hr : resolveSub pb pe o with
  | ok p => exact absurd ⟨p.1, p.2, (accept_iff_sub pb pe hp o ho p.1 p.2).1 hr⟩ h
  | err c => exact ⟨c, rfl⟩
  | panic m => exact absurd hr (resolveSub_total _ _ _ _)

/-- **every nesting depth**: whatever chain of relative offsets is accepted, the result lies inside
the text it started from (and is a well-formed range) -/
theorem chain_within (os : List Offset) (hos : ∀ o ∈ os, o.WF) :
    ∀ pb pe b e, pb ≤ pe → resolveChain (pb, pe) os = .ok (b, e) → pb ≤ b ∧ b ≤ e ∧ e ≤ pe := by
  induction os with
  | nil => intro pb pe b e hp h; simp [resolveChain] at h; omega
  | cons o os ih =>
    intro pb pe b e hp h
    simp only [resolveChain] at h
    cases hr : resolveSub pb pe o with
    | ok q =>
      rw [hr] at h
      obtain ⟨qb, qe⟩ := q
      have hd := (accept_iff_sub pb pe hp o (hos o (by simp)) qb qe).1 hr
      obtain ⟨_, _, h3, h4, h5⟩ := hd
      have := ih (fun o ho => hos o (by simp [ho])) qb qe b e h4 h
      omega
    | err c => rw [hr] at h; cases h
    | panic m => rw [hr] at h; cases h

theorem chain_total (os : List Offset) : ∀ p m, resolveChain p os ≠ .panic m := by
  induction os with
  | nil => intro p m; simp [resolveChain]
  | cons o os ih =>
    intro p m
    obtain ⟨pb, pe⟩ := p
    simp only [resolveChain]
    cases hr : resolveSub pb pe o with
    | ok q => exact ih q m
    | err c => simp
    | panic m' => exact absurd hr (resolveSub_total _ _ _ _)

/-- **text_exact**: the accepted selection's text has exactly `e - b` code points, and they are the
ones at positions `b … e-1` of the text. -/
theorem text_exact {α} (chars : List α) (b e : Nat) (hbe : b ≤ e) (he : e ≤ chars.length) :
    (selText chars b e).length = e - b ∧ ∀ i, i < e - b → (selText chars b e)[i]? = chars[b + i]? := by
  unfold selText
  refine ⟨by simp; omega, ?_⟩
  intro i hi
  simp [hi]

/-- **reported_wf + rereport (resource)**: in all four modes the reported offset is well-formed
(end-aligned cursors ≤ 0), has the requested mode and re-resolves to the same range. -/
theorem rereport_res (m : OffsetMode) (len b e : Nat) (hbe : b ≤ e) (he : e ≤ len) :
    (reportRes m len b e).WF ∧ (reportRes m len b e).mode = m ∧
    resolveRes len (reportRes m len b e) = .ok (b, e) := by
  refine ⟨?_, ?_, ?_⟩
  · cases m <;> simp [reportRes, Offset.WF, Cursor.WF] <;> omega
  · cases m <;> simp [reportRes, Offset.mode]
  · rw [accept_iff_res]
    · cases m <;> simp [reportRes, Denotes, Cursor.pos] <;> omega
    · cases m <;> simp [reportRes, Offset.WF, Cursor.WF] <;> omega

/-- **report is the inverse of resolve**: an accepted well-formed offset, reported back in its own alignment mode, is
the very offset that was given — so every range has exactly one well-formed offset per mode, and the offset a user
wrote is the one the library shows. (With `rereport_res`: resolve and report are mutually inverse on each mode.) -/
theorem report_of_resolved (len : Nat) (o : Offset) (ho : o.WF) (b e : Nat)
    (h : resolveRes len o = .ok (b, e)) : reportRes o.mode len b e = o := by
  obtain ⟨h1, h2, _, _⟩ := (accept_iff_res len o ho b e).1 h
  obtain ⟨w1, w2⟩ := ho
  cases o with
  | mk c1 c2 =>
    cases c1 <;> cases c2 <;>
      simp only [Cursor.pos, Cursor.WF, Offset.mode, reportRes, Offset.mk.injEq, Cursor.b.injEq, Cursor.e.injEq] at * <;>
      omega

/-- two well-formed offsets of the same mode that resolve to the same range are the same offset -/
theorem offset_unique_per_mode (len : Nat) (o o' : Offset) (ho : o.WF) (ho' : o'.WF) (hm : o.mode = o'.mode)
    (b e : Nat) (h : resolveRes len o = .ok (b, e)) (h' : resolveRes len o' = .ok (b, e)) : o = o' := by
  rw [← report_of_resolved len o ho b e h, ← report_of_resolved len o' ho' b e h', hm]

example : resolveRes 10 ⟨.e (-4), .e 0⟩ = .ok (6, 10) ∧ reportRes .ee 10 6 10 = ⟨.e (-4), .e 0⟩ := by decide

/-- **reported_wf + rereport (relative)** -/
theorem rereport_rel (m : OffsetMode) (pb pe b e : Nat) (h1 : pb ≤ b) (h2 : b ≤ e) (h3 : e ≤ pe) :
    ∃ o, reportRel m pb pe b e = .ok (some o) ∧ o.WF ∧ o.mode = m ∧ resolveSub pb pe o = .ok (b, e) := by
  have hp : pb ≤ pe := by omega
  have hrb : relBegin pb b = some (b - pb) := by simp [relBegin, h1]
  have hre : relEnd pb pe e = .ok (some (e - pb)) := by
    simp only [relEnd, h3, if_true]; split
    · omega
    · rfl
  have hrbe : relBeginEnd pb pe b = some (((b - pb : Nat) : Int) - ((pe : Int) - pb)) := by
    simp [relBeginEnd, h1]
  have hree : relEndEnd pb pe e = .ok (some (((e - pb : Nat) : Int) - ((pe : Int) - pb))) := by
    simp only [relEndEnd, h3, if_true]; split
    · omega
    · rfl
  cases m
  · refine ⟨⟨.b (b - pb), .b (e - pb)⟩, by simp [reportRel, hrb, hre], by simp [Offset.WF, Cursor.WF], rfl, ?_⟩
    rw [accept_iff_sub _ _ hp _ (by simp [Offset.WF, Cursor.WF])]
    simp [DenotesIn, Cursor.pos]; omega
  · refine ⟨⟨.b (b - pb), .e (((e - pb : Nat) : Int) - ((pe : Int) - pb))⟩, by simp [reportRel, hrb, hree], ?_, rfl, ?_⟩
    · simp [Offset.WF, Cursor.WF]; omega
    · rw [accept_iff_sub _ _ hp _ (by simp [Offset.WF, Cursor.WF]; omega)]
      simp [DenotesIn, Cursor.pos]; omega
  · refine ⟨⟨.e (((b - pb : Nat) : Int) - ((pe : Int) - pb)), .b (e - pb)⟩, by simp [reportRel, hrbe, hre], ?_, rfl, ?_⟩
    · simp [Offset.WF, Cursor.WF]; omega
    · rw [accept_iff_sub _ _ hp _ (by simp [Offset.WF, Cursor.WF]; omega)]
      simp [DenotesIn, Cursor.pos]; omega
  · refine ⟨⟨.e (((b - pb : Nat) : Int) - ((pe : Int) - pb)), .e (((e - pb : Nat) : Int) - ((pe : Int) - pb))⟩, by simp [reportRel, hrbe, hree], ?_, rfl, ?_⟩
    · simp [Offset.WF, Cursor.WF]; omega
    · rw [accept_iff_sub _ _ hp _ (by simp [Offset.WF, Cursor.WF]; omega)]
      simp [DenotesIn, Cursor.pos]; omega

/-! ### Non-vacuity -/
example : resolveRes 5 ⟨.b 1, .e (-1)⟩ = .ok (1, 4) ∧ Denotes 5 ⟨.b 1, .e (-1)⟩ 1 4 := by
  refine ⟨by decide, ?_⟩; simp [Denotes, Cursor.pos]
example : resolveRes 5 ⟨.b 4, .b 2⟩ = .err "InvalidOffset" ∧ resolveRes 5 ⟨.e (-6), .b 2⟩ = .err "CursorOutOfBounds" := by decide
example : resolveChain (0, 10) [⟨.b 2, .e (-1)⟩, ⟨.e (-3), .e 0⟩] = .ok (6, 9) := by decide
example : reportRel .ee 2 9 4 7 = .ok (some ⟨.e (-5), .e (-2)⟩) := by decide

/-! ### Tie to the source: cursor resolution is regenerated from the source on every run -/

/-- **the model's cursor resolution is the source's**, inside a selection: `Stam.Gen.beginAlignedSel` is what the
translator renders from `TextSelection::beginaligned_cursor` as it is in /repo now -/
theorem source_cursor_in_selection_is_the_model (b e : Nat) (c : Cursor) :
    Gen.beginAlignedSel b e c = beginAligned (e - b) c := gen_beginAlignedSel_agrees b e c

/-- … and against a whole text: `Stam.Gen.beginAlignedText` is rendered from `Text::beginaligned_cursor` -/
theorem source_cursor_in_text_is_the_model (len : Nat) (c : Cursor) :
    Gen.beginAlignedText len c = beginAligned len c := gen_beginAlignedText_agrees len c

end Stam.C04
