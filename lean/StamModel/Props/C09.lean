import StamModel.Stamql
/-
  C09 — STAMQL parsing is total and printing then parsing is a fixpoint: the lexical layer.

  What is proved here is about `StamModel/Stamql.lean`: argument typing (`get_arg_type`), argument splitting
  (`get_arg`) and the operator table (`parse_dataoperator`) against the operator printer
  (`DataOperator::to_string`). The grammar above this layer (query and constraint syntax, sub-queries,
  attributes) is not modelled: for it, totality and the print/parse fixpoint are checked on the implementation
  by the `stamql` family (grammar-directed generation, a programmatically built stream and a malformed stream),
  which is a test, not a theorem — C09 is claimed as partial in that sense (see DESIGN.md).
-/
namespace Stam.QL.C09
open Stam.QL

/-! ## argument typing -/

/-- on a quoted argument the numeric flag starts false and stays false -/
theorem scanType_nonnumeric (s : Str) : ∀ (fp : Bool) (prev : Option Char) (r : Bool × Bool),
    scanType s false fp prev = some r → r.1 = false := by
  induction s with
  | nil => intro fp prev r h; simp [scanType] at h; rw [← h]
  | cons c cs ih =>
    intro fp prev r h
    unfold scanType at h
    split at h
    · cases h
    · simp only [Bool.false_eq_true, false_and, ↓reduceIte, ite_self] at h
      exact ih _ _ r h

/-- **a quoted argument is a string or a list, never a number, keyword or datetime** -/
theorem quoted_is_string_or_list (isDt : Str → Bool) (s : Str) :
    argType isDt s true = .string ∨ argType isDt s true = .list := by
  unfold argType
  split
  · left; rfl
  · cases h : scanType s (!true) false none with
    | none => right; simp
    | some r =>
      have := scanType_nonnumeric s false none r (by simpa using h)
      obtain ⟨n, f⟩ := r
      simp only at this
      subst this
      left; simp

theorem scanType_nopipe (s : Str) (hp : '|' ∉ s) : ∀ (num fp : Bool) (prev : Option Char),
    scanType s num fp prev ≠ none := by
  induction s with
  | nil => intro _ _ _; simp [scanType]
  | cons c cs ih =>
    intro num fp prev
    have hc : c ≠ '|' := fun h => hp (by simp [h])
    have hcs : '|' ∉ cs := fun h => hp (by simp [h])
    unfold scanType
    simp only [hc, false_and, ↓reduceIte]
    exact ih hcs _ _ _

/-- a quoted argument without list separator is a string -/
theorem quoted_nopipe_is_string (isDt : Str → Bool) (s : Str) (hp : '|' ∉ s) : argType isDt s true = .string := by
  rcases quoted_is_string_or_list isDt s with h | h
  · exact h
  · exfalso
    unfold argType at h
    split at h
    · cases h
    · cases hs : scanType s (!true) false none with
      | none => exact scanType_nopipe s hp _ _ _ hs
      | some r =>
        rw [hs] at h
        obtain ⟨n, f⟩ := r
        simp only at h
        split at h <;> (try split at h) <;> simp_all

/-- what the type says about the argument: Bool ⇒ it spells true/false; Datetime ⇒ the datetime parser accepts it -/
theorem argType_bool (isDt : Str → Bool) (s : Str) (q : Bool) (h : argType isDt s q = .bool) :
    s = ['t', 'r', 'u', 'e'] ∨ s = ['f', 'a', 'l', 's', 'e'] := by
  unfold argType at h
  split at h
  · cases h
  · split at h
    · split at h <;> cases h
    · rename_i n f _
      repeat' split at h
      all_goals first | assumption | cases h

theorem argType_datetime (isDt : Str → Bool) (s : Str) (q : Bool) (h : argType isDt s q = .datetime) :
    isDt s = true := by
  unfold argType at h
  split at h
  · cases h
  · split at h
    · split at h <;> cases h
    · repeat' split at h
      all_goals first | assumption | cases h

/-! ## totality of the operator table: the `unreachable!` and `expect` sites cannot be reached -/

/-- **C09 (no panic in `parse_dataoperator`).** Whatever the operator token and the argument, typed by
`get_arg_type` itself, the result is an operator or a syntax error — never one of the panic sites. -/
theorem parseOp_never_panics (parseI : Str → Option Int) (parseF : Str → Bool) (isDt : Str → Bool)
    (opstr value : Str) (quoted : Bool) :
    (parseOp parseI parseF isDt opstr value (argType isDt value quoted)).isPanic = false := by
  cases hty : argType isDt value quoted <;>
    (unfold parseOp; simp only []) <;>
    (try have hb := argType_bool isDt value quoted hty) <;>
    (try have hd := argType_datetime isDt value quoted hty) <;>
    (repeat' split) <;>
    simp_all [Out.isPanic, Out.map] <;>
    (try (rcases hb with hb | hb <;> simp_all [Out.isPanic]))

/-! ## argument splitting: a quoted value comes back unchanged -/

theorem getArgAux_in_quote (isDt : Str → Bool) (all : Str) (rest : Str) :
    ∀ (v : Str) (i b : Nat), ('"' ∉ v) → ('\\' ∉ v) →
      getArgAux isDt all (v ++ '"' :: rest) i true false b =
        some ((all.take (i + v.length)).drop b, trimStart rest, argType isDt ((all.take (i + v.length)).drop b) true) := by
  intro v
  induction v with
  | nil =>
    intro i b _ _
    simp [getArgAux]
  | cons c cs ih =>
    intro i b hq hb
    have hc1 : c ≠ '"' := fun h => hq (by simp [h])
    have hc2 : c ≠ '\\' := fun h => hb (by simp [h])
    have hq' : '"' ∉ cs := fun h => hq (by simp [h])
    have hb' : '\\' ∉ cs := fun h => hb (by simp [h])
    simp only [List.cons_append, getArgAux, hc1, false_and, ↓reduceIte, Bool.not_eq_true, Bool.true_eq_false,
      not_false_eq_true, not_true_eq_false, hc2, decide_false]
    rw [ih (i + 1) b hq' hb']
    have : i + 1 + cs.length = i + (cs.length + 1) := by omega
    simp [this]

/-- **C09 (quoted values round-trip through `get_arg`).** A value without quote and backslash, written between
quotes and followed by anything, is read back exactly, typed as a quoted argument, and the remainder is what
followed (minus leading white space). -/
theorem getArg_quoted (isDt : Str → Bool) (v rest : Str) (hq : '"' ∉ v) (hb : '\\' ∉ v) :
    getArg isDt ('"' :: v ++ '"' :: rest) = some (v, trimStart rest, argType isDt v true) := by
  unfold getArg
  simp only [List.cons_append, getArgAux, true_and, Bool.not_eq_true, not_false_eq_true, Bool.not_false, ↓reduceIte,
    and_self, Bool.true_eq_false, and_false, not_true_eq_false, false_and]
  have h := getArgAux_in_quote isDt ('"' :: (v ++ '"' :: rest)) rest v 1 1 hq hb
  simp only [Nat.zero_add] at h ⊢
  have e : (List.take (1 + v.length) ('"' :: (v ++ '"' :: rest))).drop 1 = v := by
    have : 1 + v.length = v.length + 1 := by omega
    rw [this, List.take_succ_cons, List.drop_succ_cons, List.drop_zero, List.take_left']
    rfl
  rw [e] at h
  simpa using h

/-! ## printing an operator and parsing it again -/

/-- integer literals as `isize::to_string` writes them: an optional minus sign and at least one digit -/
def IntLit (s : Str) : Prop := ∃ ds : Str, ds ≠ [] ∧ (∀ c ∈ ds, c.isDigit = true) ∧ (s = ds ∨ s = '-' :: ds)

theorem scanType_digits (ds : Str) (hd : ∀ c ∈ ds, c.isDigit = true) : ∀ (prev : Option Char),
    scanType ds true false prev = some (true, false) := by
  induction ds with
  | nil => intro _; rfl
  | cons c cs ih =>
    intro prev
    have hc : c.isDigit = true := hd c (by simp)
    have hp : c ≠ '|' := by intro h; subst h; simp [Char.isDigit] at hc
    have hdot : c ≠ '.' := by intro h; subst h; simp [Char.isDigit] at hc
    unfold scanType
    simp only [hp, false_and, ↓reduceIte, hc, not_true_eq_false, hdot, and_false]
    exact ih (fun c' hc' => hd c' (by simp [hc'])) _

theorem argType_intLit (isDt : Str → Bool) (s : Str) (h : IntLit s) : argType isDt s false = .integer := by
  obtain ⟨ds, hne, hd, hs⟩ := h
  have hscan : scanType s true false none = some (true, false) := by
    rcases hs with hs | hs
    · rw [hs]; exact scanType_digits ds hd none
    · rw [hs]
      unfold scanType
      have : ('-' : Char) ≠ '|' := by decide
      simp only [this, false_and, ↓reduceIte]
      have h1 : ¬ ('-' : Char).isDigit = true := by decide
      have h2 : ('-' : Char) ≠ '.' := by decide
      simp only [h1, not_false_eq_true, h2, ne_eq, and_self, not_true_eq_false, or_self, ↓reduceIte, and_false]
      exact scanType_digits ds hd _
  have hne' : s.isEmpty = false := by
    rcases hs with hs | hs
    · rw [hs]; cases ds <;> simp_all
    · rw [hs]; rfl
  unfold argType
  simp [hne', hscan]

/-- the operators `to_string` can write, with values that survive: strings without quote, backslash and list
separator; integers written by a printer whose output is an integer literal that the integer parser reads back;
float and datetime literals that are typed and accepted as such -/
def Printable (showI : Int → Str) (parseI : Str → Option Int) (parseF : Str → Bool) (isDt : Str → Bool) : Op → Prop
  | .any | .null | .tru | .fls => True
  | .eq s => '"' ∉ s ∧ '\\' ∉ s ∧ '|' ∉ s
  | .eqi n | .gt n | .ge n | .lt n | .le n => IntLit (showI n) ∧ parseI (showI n) = some n
  | .eqf l | .gtf l | .gef l | .ltf l | .lef l => argType isDt l false = .float ∧ parseF l = true
  | .eqd l | .gtd l | .ged l | .ltd l | .led l => argType isDt l false = .datetime
  | .not (.eq s) => '"' ∉ s ∧ '\\' ∉ s ∧ '|' ∉ s
  | .not (.eqi n) => IntLit (showI n) ∧ parseI (showI n) = some n
  | .not (.eqf l) => argType isDt l false = .float ∧ parseF l = true
  | .not .any | .not .null | .not .tru | .not .fls => True
  | _ => False

theorem kw_types (isDt : Str → Bool) :
    argType isDt ['a', 'n', 'y'] false = .any ∧ argType isDt ['n', 'u', 'l', 'l'] false = .null ∧
    argType isDt ['t', 'r', 'u', 'e'] false = .bool ∧ argType isDt ['f', 'a', 'l', 's', 'e'] false = .bool := by
  refine ⟨?_, ?_, ?_, ?_⟩ <;> simp [argType, scanType, Char.isDigit] <;> decide

/-- **C09 (operator fixpoint).** Every printable operator, printed by `to_string` and read back through
`get_arg_type` and `parse_dataoperator`, is the same operator. -/
theorem print_parse_op (showI : Int → Str) (parseI : Str → Option Int) (parseF : Str → Bool) (isDt : Str → Bool)
    (o : Op) (hp : Printable showI parseI parseF isDt o) :
    ∃ op v q, printOp showI o = some (op, v, q) ∧
      parseOp parseI parseF isDt op v (argType isDt v q) = .ok o := by
  obtain ⟨k1, k2, k3, k4⟩ := kw_types isDt
  cases o with
  | any => exact ⟨_, _, _, rfl, by simp [parseOp, k1]⟩
  | null => exact ⟨_, _, _, rfl, by simp [parseOp, k2]⟩
  | tru => exact ⟨_, _, _, rfl, by simp [parseOp, k3]⟩
  | fls => exact ⟨_, _, _, rfl, by rw [k4]; simp [parseOp]⟩
  | eq s => exact ⟨_, _, _, rfl, by rw [quoted_nopipe_is_string isDt s hp.2.2]; simp [parseOp]⟩
  | eqi n => exact ⟨_, _, _, rfl, by rw [argType_intLit isDt _ hp.1]; simp [parseOp, hp.2]⟩
  | gt n => exact ⟨_, _, _, rfl, by rw [argType_intLit isDt _ hp.1]; simp [parseOp, hp.2]⟩
  | ge n => exact ⟨_, _, _, rfl, by rw [argType_intLit isDt _ hp.1]; simp [parseOp, hp.2]⟩
  | lt n => exact ⟨_, _, _, rfl, by rw [argType_intLit isDt _ hp.1]; simp [parseOp, hp.2]⟩
  | le n => exact ⟨_, _, _, rfl, by rw [argType_intLit isDt _ hp.1]; simp [parseOp, hp.2]⟩
  | eqf l => exact ⟨_, _, _, rfl, by rw [hp.1]; simp [parseOp, hp.2]⟩
  | gtf l => exact ⟨_, _, _, rfl, by rw [hp.1]; simp [parseOp, hp.2]⟩
  | gef l => exact ⟨_, _, _, rfl, by rw [hp.1]; simp [parseOp, hp.2]⟩
  | ltf l => exact ⟨_, _, _, rfl, by rw [hp.1]; simp [parseOp, hp.2]⟩
  | lef l => exact ⟨_, _, _, rfl, by rw [hp.1]; simp [parseOp, hp.2]⟩
  | eqd l => exact ⟨_, _, _, rfl, by have hd := argType_datetime isDt l false hp; rw [hp]; simp [parseOp, hd]⟩
  | gtd l => exact ⟨_, _, _, rfl, by have hd := argType_datetime isDt l false hp; rw [hp]; simp [parseOp, hd]⟩
  | ged l => exact ⟨_, _, _, rfl, by have hd := argType_datetime isDt l false hp; rw [hp]; simp [parseOp, hd]⟩
  | ltd l => exact ⟨_, _, _, rfl, by have hd := argType_datetime isDt l false hp; rw [hp]; simp [parseOp, hd]⟩
  | led l => exact ⟨_, _, _, rfl, by have hd := argType_datetime isDt l false hp; rw [hp]; simp [parseOp, hd]⟩
  | or os => exact absurd hp (by simp [Printable])
  | not o =>
    cases o with
    | eq s => exact ⟨_, _, _, rfl, by rw [quoted_nopipe_is_string isDt s hp.2.2]; simp [parseOp, Out.map]⟩
    | eqi n => exact ⟨_, _, _, rfl, by rw [argType_intLit isDt _ hp.1]; simp [parseOp, hp.2, Out.map]⟩
    | eqf l => exact ⟨_, _, _, rfl, by rw [hp.1]; simp [parseOp, hp.2, Out.map]⟩
    | any => exact ⟨_, _, _, rfl, by rw [k1]; simp [parseOp, Out.map]⟩
    | null => exact ⟨_, _, _, rfl, by rw [k2]; simp [parseOp, Out.map]⟩
    | tru => exact ⟨_, _, _, rfl, by rw [k3]; simp [parseOp, Out.map]⟩
    | fls => exact ⟨_, _, _, rfl, by rw [k4]; simp [parseOp, Out.map]⟩
    | _ => exact absurd hp (by simp [Printable])

/-! ## non-vacuity -/

example : IntLit ['-', '4', '2'] := ⟨['4', '2'], by decide, by decide, Or.inr rfl⟩

example : getArg (fun _ => false) ['"', 'm', 'y', ' ', 'v', 'a', 'l', 'u', 'e', '"', ' ', ';', ' ', 'r', 'e', 's', 't'] =
    some (['m', 'y', ' ', 'v', 'a', 'l', 'u', 'e'], [';', ' ', 'r', 'e', 's', 't'], .string) := by decide

example : argType (fun _ => false) ['1', '.', '5'] false = .float ∧ argType (fun _ => false) ['-'] false = .integer ∧
    argType (fun _ => false) ['a', '|', 'b'] true = .list ∧ argType (fun _ => false) ['n', 'u', 'l', 'l'] true = .string := by decide

end Stam.QL.C09
