import StamModel.Props.C03
import StamModel.Props.C19Temp
/-
  C03 — the temporary identifier a store hands out for an item without public identifier (`!A<handle>`) is read by the
  lookup (`tempId`, the store model's `resolve_temp_id`) as that handle, for every handle a 64-bit machine can hold;
  with `temp_exact` (Props/C03.lean) the lookup of that text then answers the live item in that slot and nothing else.
-/
namespace Stam.C03
open Stam Stam.Csv.Dec

theorem digitChar_range (d : Nat) (h : d < 10) : ('0' ≤ digitChar d && digitChar d ≤ '9') = true := by
  match d, h with
  | 0, _ | 1, _ | 2, _ | 3, _ | 4, _ | 5, _ | 6, _ | 7, _ | 8, _ | 9, _ => decide
  | n + 10, h => omega

theorem parseUsize_showDec (n : Nat) (hn : n < 2 ^ 64) : parseUsize (showDec n) = some n := by
  have hlt : ∀ d ∈ (digitsLE (n + 1) n).reverse, d < 10 := fun d hd => digitsLE_lt (n + 1) n d (by simpa using hd)
  have hne : (showDec n).isEmpty = false := by
    cases h : showDec n with
    | nil => simp [showDec, digitsLE_ne_nil] at h
    | cons _ _ => rfl
  have hall : (showDec n).all (fun c => '0' ≤ c && c ≤ '9') = true := by
    simp only [showDec, List.all_eq_true, List.mem_map]
    rintro c ⟨d, hd, rfl⟩
    exact digitChar_range d (hlt d hd)
  have h48 : '0'.toNat = 48 := by decide
  have hval : (showDec n).foldl (fun acc c => acc * 10 + (c.toNat - '0'.toNat)) 0 = n := by
    rw [h48]
    unfold showDec
    rw [Stam.C19.foldl_digits _ hlt 0, foldl_reverse_ofLE, ofLE_digitsLE (n + 1) n (by omega)]
  simp only [parseUsize, hne, hall, Bool.not_true, Bool.or_self, Bool.false_eq_true, if_false, hval, hn, if_true]

/-- **the identifier a store hands out names its own slot** -/
theorem tempId_of_written (letter : Char) (n : Nat) (hn : n < 2 ^ 64) :
    tempId letter (String.ofList ('!' :: letter :: showDec n)) = some n := by
  simp only [tempId, String.toList_ofList, if_true, parseUsize_showDec n hn]

/-- and a handle that does not fit the machine word is refused, not wrapped -/
example : parseUsize (showDec (2 ^ 64)) = none ∧ parseUsize (showDec (2 ^ 64 - 1)) = some (2 ^ 64 - 1) := by decide

end Stam.C03
