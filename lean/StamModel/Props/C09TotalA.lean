import StamModel.StamqlA
import StamModel.Props.C09Total
/-
  C09 — "for every input string the query parser returns either a query or a syntax error — it never panics", extended
  from SELECT queries (Props/C09Total) to ADD and DELETE queries with their assignments (StamqlA.lean):
  `parseQueryAll_never_panics`.
-/
namespace Stam.QL.C09T
open Stam.QL

def NoPanic {α} (o : Out α) : Prop := ∀ m, o ≠ .panic m

theorem noPanic_of_safeO {β} (o : Out (β × Str)) (h : SafeO o) : NoPanic o := fun m => po_not_panic o m h
theorem noPanic_of_safe {α} (o : Out (α × Str)) (h : Safe o) : NoPanic o := by
  intro m hm; subst hm; exact h

theorem asgValue_np (E : Ext) (v : Str) (ty : ArgType) : NoPanic (asgValue E v ty) := by
  intro m
  unfold asgValue
  repeat' split
  all_goals simp

theorem parseName_rest_trimmed (s : Str) (n : Option Str) (r : Str) (hs : trimStart s = s) (h : parseName s = (n, r)) :
    trimStart r = r := by
  have := parseName_trimmed s hs
  rw [h] at this; exact this

/-- `Assignment::parse` before the `;`: never a panic -/
theorem parseAsgCore_np (E : Ext) (q : Str) : NoPanic (parseAsgCore E q) := by
  intro m
  unfold parseAsgCore
  simp only []
  repeat' split
  all_goals first
    | (intro h; cases h; done)
    | (simp; done)
    | (intro h; exact absurd (by assumption) (arg_not_panic _ _ _))
    | (intro h; exact absurd (by assumption) (asgValue_np _ _ _ _))
    | (intro h; exact absurd (by assumption) (po_not_panic _ _ (parseOffset_safe _ _ _ _ (parseName_rest_trimmed _ _ _ (trimStart_idem _) (by assumption)))))

theorem parseAsg_np (E : Ext) (q : Str) : NoPanic (parseAsg E q) := by
  intro m
  unfold parseAsg
  split
  · split <;> simp
  · simp
  · rename_i e he; exact absurd he (parseAsgCore_np E q e)

theorem asgLoop_np (E : Ext) : ∀ (f : Nat) (q : Str) (acc : List Asg), NoPanic (asgLoop E f q acc) := by
  intro f
  induction f with
  | zero => intro q acc m; unfold asgLoop; simp
  | succ f ih =>
    intro q acc m
    unfold asgLoop
    split
    · simp
    · split
      · exact ih _ _ m
      · simp
      · rename_i e he; exact absurd he (parseAsg_np E q e)

theorem subqueries_np (E : Ext) (q : Str) : NoPanic (subqueries E q) := by
  intro m
  unfold subqueries
  split
  · rename_i h
    exact noPanic_of_safe _ ((select_sub_safe E _).2 _ _ (Or.inl h)) m
  · simp

theorem parseAdd_np (E : Ext) (q0 : Str) : NoPanic (parseAdd E q0) := by
  intro m
  unfold parseAdd
  simp only []
  repeat' split
  all_goals first
    | (simp; done)
    | (intro h; exact absurd (by assumption) (asgLoop_np _ _ _ _ _))
    | (intro h; exact absurd (by assumption) (subqueries_np _ _ _))

theorem parseDelete_np (E : Ext) (q0 : Str) : NoPanic (parseDelete E q0) := by
  intro m
  unfold parseDelete
  simp only []
  repeat' split
  all_goals first
    | (simp; done)
    | (intro h; exact absurd (by assumption) (subqueries_np _ _ _))

/-- **C09 (totality, all three query types).** For every input text, `Query::parse` — SELECT, ADD (with any assignments)
and DELETE queries, sub-queries to any depth — answers a query or a syntax error, never a panic: the fixed-width slices
of `parse_add`, `parse_delete`, `Assignment::parse` and `parse_subqueries` are never taken inside a character. -/
theorem parseQueryAll_never_panics (E : Ext) (s : Str) : (parseQueryAll E s).isPanic = false := by
  have key : NoPanic (parseQueryAll E s) := by
    intro m
    unfold parseQueryAll
    simp only []
    split
    · simp
    · split
      · split
        · simp
        · simp
        · rename_i e he
          exact absurd he (noPanic_of_safe _ ((select_sub_safe E _).1 _) e)
      · split
        · exact parseAdd_np E _ m
        · split
          · exact parseDelete_np E _ m
          · simp
  cases h : parseQueryAll E s with
  | ok _ => rfl
  | err _ => rfl
  | panic m => exact absurd h (key m)

end Stam.QL.C09T
