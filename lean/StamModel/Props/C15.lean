import StamModel.Csv
/-
  C15 — STAM CSV round trip preserves structure, targets and the text of values.
  Proved: the cursor text round trip (sign ↔ alignment), the column split/pack round trip for
  identifiers without ';', and the alignment of all columns of a complex selector with its
  expanded sub-selectors. The file level (manifest, dataset files, temp ids) is tied by the `serial`
  correspondence family (with three known findings around temporary ids).
-/
namespace Stam.C15
open Stam Stam.Csv

theorem splitSemi_ne_nil (cs : List Char) : splitSemi cs ≠ [] := by
  induction cs with
  | nil => simp [splitSemi]
  | cons c cs ih =>
    simp only [splitSemi]
    split
    · simp
    · split <;> simp

theorem splitSemi_cons_nosemi (c : Char) (cs : List Char) (hc : c ≠ ';') :
    splitSemi (c :: cs) = (c :: (splitSemi cs).headD []) :: (splitSemi cs).tail := by
  simp only [splitSemi, hc, if_false]
  cases h : splitSemi cs with
  | nil => exact absurd h (splitSemi_ne_nil cs)
  | cons x xs => simp

/-- splitting `v ++ rest` where `v` has no ';' : `v` is glued to the first piece of `rest` -/
theorem splitSemi_append (v rest : List Char) (hv : ';' ∉ v) :
    splitSemi (v ++ rest) = (v ++ (splitSemi rest).headD []) :: (splitSemi rest).tail := by
  induction v with
  | nil =>
    simp only [List.nil_append]
    cases h : splitSemi rest with
    | nil => exact absurd h (splitSemi_ne_nil rest)
    | cons x xs => simp
  | cons c cs ih =>
    have hc : c ≠ ';' := by intro h; subst h; simp at hv
    have hcs : ';' ∉ cs := by intro h; exact hv (by simp [h])
    rw [List.cons_append, splitSemi_cons_nosemi c _ hc, ih hcs]
    simp

/-- **column round trip**: packing values that contain no ';' and splitting again yields an empty
first field (the complex selector's own position) followed by exactly the values, in order -/
theorem split_packColumn (vals : List (List Char)) (h : ∀ v ∈ vals, ';' ∉ v) :
    splitSemi (packColumn vals) = [] :: vals := by
  induction vals with
  | nil => simp [packColumn, splitSemi]
  | cons v vs ih =>
    have hv := h v (by simp)
    have hvs : ∀ x ∈ vs, ';' ∉ x := fun x hx => h x (by simp [hx])
    have ih' := ih hvs
    simp only [packColumn, List.flatMap_cons] at ih' ⊢
    rw [List.cons_append]
    simp only [splitSemi, if_true]
    rw [splitSemi_append v _ hv, ih']
    simp

/-- **alignment**: whatever mix of plain and range-compressed sub-selectors a complex selector has,
the i-th position of a column is the value of the i-th expanded sub-selector - in every column -/
theorem packGroups_aligned {α} (f : α → List Char) (gs : Groups α) (hne : ∀ g ∈ gs, g ≠ [])
    (h : ∀ g ∈ gs, ∀ x ∈ g, ';' ∉ f x) :
    splitSemi (packGroups f gs) = [] :: (gs.flatten.map f) := by
  have : packGroups f gs = packColumn (gs.flatten.map f) := by
    induction gs with
    | nil => simp [packGroups, packColumn]
    | cons g gs ih =>
      have ih' := ih (fun g' hg' => hne g' (by simp [hg'])) (fun g' hg' => h g' (by simp [hg']))
      simp only [packGroups, packColumn, List.flatMap_cons, List.flatten_cons, List.map_append, List.flatMap_append] at ih' ⊢
      rw [ih']
      cases g with
      | nil => exact absurd rfl (hne [] (by simp))
      | cons x xs => simp [List.flatMap_map]
  rw [this]
  apply split_packColumn
  intro v hv
  simp only [List.mem_map, List.mem_flatten] at hv
  obtain ⟨x, ⟨g, hg, hx⟩, rfl⟩ := hv
  exact h g hg x hx

/-- **cursor text round trip**: what `Display` prints, `TryFrom<&str>` reads back as the same cursor
with the same alignment - for every well-formed cursor (end-aligned ≤ 0), `-0` included -/
theorem cursor_roundtrip (showNat : Nat → List Char) (parseNat : List Char → Option Nat)
    (hrt : ∀ n, parseNat (showNat n) = some n)
    (hdig : ∀ n, (showNat n).head? ≠ some '-') (hzero : showNat 0 = ['0'])
    (c : Cursor) (hc : c.WF) : parseCursor parseNat (showCursor showNat c) = .ok c := by
  cases c with
  | b n =>
    simp only [showCursor]
    have := hdig n
    cases hs : showNat n with
    | nil => simp [parseCursor, ← hs, hrt]
    | cons x xs =>
      have hx : x ≠ '-' := by intro h; subst h; simp [hs] at this
      simp only [parseCursor]
      split
      · rename_i heq; simp at heq; exact absurd heq.1 hx
      · rw [← hs, hrt]
  | e z =>
    simp only [Cursor.WF] at hc
    simp only [showCursor]
    by_cases h0 : z = 0
    · subst h0
      have hp : parseNat ['0'] = some 0 := by rw [← hzero]; exact hrt 0
      simp [parseCursor, hp]
    · have hz : z < 0 := by omega
      simp only [h0, if_false, hz, if_true, parseCursor, hrt]
      congr 2; omega

/-! ### Non-vacuity -/
example : splitSemi (packColumn ["r0".toList, "".toList, "r1".toList]) = [[], "r0".toList, [], "r1".toList] := by decide
example : splitSemi (packGroups (fun (x : String) => x.toList) [["", ""], ["s0"], ["s1"]])
    = [[], [], [], "s0".toList, "s1".toList] := by decide
/-- the packing found on the original tree (one position for a whole range-compressed group in the
dataset column) is NOT aligned: the third entry is read where the fourth belongs -/
example : splitSemi (";;s0;s1".toList) ≠ [[], [], [], "s0".toList, "s1".toList] := by decide
example : parseCursor (fun cs => if cs = ['0'] then some 0 else if cs = ['7'] then some 7 else none) ['-', '0'] = .ok (.e 0) ∧
    parseCursor (fun cs => if cs = ['0'] then some 0 else if cs = ['7'] then some 7 else none) ['7'] = .ok (.b 7) := by decide

end Stam.C15
