import StamModel.Lemmas.Vocab
/-
  C10 — "within a dataset each key exists once … asking a key for its data returns exactly the items carrying that
  key, at all times", for the dataset model of Vocab.lean: the index the code keeps (`key_data_map`) is exact after
  every insertion, removal, key removal and merge, from the empty dataset on.
-/
namespace Stam.Vocab
open Stam

/-- what holds of a dataset at all times -/
structure Inv (s : DSet) : Prop where
  /-- a key name exists once -/
  keysUnique : ∀ k1 k2 n, getLive s.keys k1 = some n → getLive s.keys k2 = some n → k1 = k2
  /-- a data identifier exists once -/
  idsUnique : ∀ d1 d2 x1 x2 i, getLive s.data d1 = some x1 → getLive s.data d2 = some x2 →
    x1.id = some i → x2.id = some i → d1 = d2
  /-- the index lists under a key exactly the live items that carry it -/
  idxExact : ∀ k d, d ∈ idxGet s.idx k ↔ ∃ x, getLive s.data d = some x ∧ x.key = k
  /-- … each once, in the order of their handles -/
  idxSorted : ∀ k, Sorted (idxGet s.idx k)
  /-- the key of a live item is a live key -/
  keysLive : ∀ d x, getLive s.data d = some x → (getLive s.keys x.key).isSome

theorem inv_empty : Inv {} := by
  refine ⟨?_, ?_, ?_, ?_, ?_⟩
  · intro k1 k2 n h; simp [getLive] at h
  · intro d1 d2 x1 x2 i h; simp [getLive] at h
  · intro k d; simp [idxGet, getLive]
  · intro k; simp [idxGet, Sorted]
  · intro d x h; simp [getLive] at h

/-! ### adding -/

theorem dataById_none (s : DSet) (i : String) (h : s.dataById i = none) :
    ∀ d x, getLive s.data d = some x → x.id ≠ some i := by
  intro d x hx hid
  have := findIdx_none _ _ h d x hx
  simp [hid] at this

theorem dataById_some (s : DSet) (i : String) (d : Nat) (h : s.dataById i = some d) :
    ∃ x, getLive s.data d = some x ∧ x.id = some i := by
  obtain ⟨x, hx, hp, _⟩ := findIdx_some _ _ _ h
  exact ⟨x, hx, by simpa using hp⟩

theorem push_inv (s : DSet) (x : Datum) (hi : Inv s) (hk : (getLive s.keys x.key).isSome)
    (hid : ∀ i, x.id = some i → s.dataById i = none) : Inv (s.push x).2 := by
  have hlive_lt : ∀ d y, getLive s.data d = some y → d < s.data.length := fun d y h => getLive_lt _ _ _ h
  refine ⟨?_, ?_, ?_, ?_, ?_⟩
  · exact hi.keysUnique
  · intro d1 d2 x1 x2 i h1 h2 e1 e2
    simp only [DSet.push, getLive_append] at h1 h2
    by_cases c1 : d1 < s.data.length
    · simp only [c1, if_true] at h1
      by_cases c2 : d2 < s.data.length
      · simp only [c2, if_true] at h2
        exact hi.idsUnique d1 d2 x1 x2 i h1 h2 e1 e2
      · simp only [c2, if_false] at h2
        split at h2
        · cases h2
          exact absurd e1 (dataById_none s i (hid i e2) d1 x1 h1)
        · cases h2
    · simp only [c1, if_false] at h1
      split at h1
      · cases h1
        by_cases c2 : d2 < s.data.length
        · simp only [c2, if_true] at h2
          exact absurd e2 (dataById_none s i (hid i e1) d2 x2 h2)
        · simp only [c2, if_false] at h2
          split at h2
          · omega
          · cases h2
      · cases h1
  · intro k d
    simp only [DSet.push, idxGet_idxInsert, getLive_append]
    by_cases hkk : k = x.key
    · subst hkk
      simp only [if_true]
      rw [mem_relInsert _ _ _ (hi.idxSorted x.key), hi.idxExact]
      constructor
      · rintro (rfl | ⟨y, hy, hyk⟩)
        · exact ⟨x, by simp, rfl⟩
        · exact ⟨y, by simp [hlive_lt d y hy, hy], hyk⟩
      · rintro ⟨y, hy, hyk⟩
        by_cases c : d < s.data.length
        · simp only [c, if_true] at hy
          exact Or.inr ⟨y, hy, hyk⟩
        · simp only [c, if_false] at hy
          split at hy
          · left; assumption
          · cases hy
    · simp only [hkk, if_false]
      rw [hi.idxExact]
      constructor
      · rintro ⟨y, hy, hyk⟩
        exact ⟨y, by simp [hlive_lt d y hy, hy], hyk⟩
      · rintro ⟨y, hy, hyk⟩
        by_cases c : d < s.data.length
        · simp only [c, if_true] at hy
          exact ⟨y, hy, hyk⟩
        · simp only [c, if_false] at hy
          split at hy
          · cases hy; exact absurd hyk.symm hkk
          · cases hy
  · intro k
    simp only [DSet.push, idxGet_idxInsert]
    by_cases hkk : k = x.key
    · simp only [hkk, if_true]; exact sorted_relInsert _ _ (hi.idxSorted _)
    · simp only [hkk, if_false]; exact hi.idxSorted k
  · intro d y hy
    simp only [DSet.push, getLive_append] at hy
    simp only [DSet.push]
    by_cases c : d < s.data.length
    · simp only [c, if_true] at hy
      exact hi.keysLive d y hy
    · simp only [c, if_false] at hy
      split at hy
      · cases hy; exact hk
      · cases hy

theorem keyByName_none (s : DSet) (n : String) (h : s.keyByName n = none) : ∀ k, getLive s.keys k ≠ some n := by
  intro k hk
  have := findIdx_none _ _ h k n hk
  simp at this

theorem keyByName_some (s : DSet) (n : String) (k : Nat) (h : s.keyByName n = some k) : getLive s.keys k = some n := by
  obtain ⟨a, ha, hp, _⟩ := findIdx_some _ _ _ h
  simp at hp; rw [hp] at ha; exact ha

theorem addKey_inv (s : DSet) (n : String) (hi : Inv s) (hn : s.keyByName n = none) :
    Inv { s with keys := s.keys ++ [some n] } := by
  have hfresh := keyByName_none s n hn
  refine ⟨?_, hi.idsUnique, hi.idxExact, hi.idxSorted, ?_⟩
  · intro k1 k2 nm l1 l2
    simp only [getLive_append] at l1 l2
    by_cases c1 : k1 < s.keys.length
    · simp only [c1, if_true] at l1
      by_cases c2 : k2 < s.keys.length
      · simp only [c2, if_true] at l2; exact hi.keysUnique k1 k2 nm l1 l2
      · simp only [c2, if_false] at l2
        split at l2
        · cases l2; exact absurd l1 (hfresh k1)
        · cases l2
    · simp only [c1, if_false] at l1
      split at l1
      · cases l1
        by_cases c2 : k2 < s.keys.length
        · simp only [c2, if_true] at l2; exact absurd l2 (hfresh k2)
        · simp only [c2, if_false] at l2
          split at l2
          · omega
          · cases l2
      · cases l1
  · intro d x hx
    have h := hi.keysLive d x hx
    have hlt : x.key < s.keys.length := by
      cases hk : getLive s.keys x.key with
      | none => simp [hk] at h
      | some a => exact getLive_lt _ _ _ hk
    simp only [getLive_append, hlt, if_true]
    exact h

/-- **`insert_data` keeps the invariant**, whatever its arguments -/
theorem insertData_inv (s : DSet) (id : Option String) (key v : String) (sf : Bool) (hi : Inv s) :
    Inv (s.insertData id key v sf).2 := by
  unfold DSet.insertData
  cases hd : id.bind s.dataById with
  | some d => exact hi
  | none =>
    have hid : ∀ i, id = some i → s.dataById i = none := by
      intro i h; subst h; simpa using hd
    simp only
    cases hk : s.keyByName key with
    | some k =>
      simp only
      split
      · exact hi
      · exact push_inv s ⟨id, k, v⟩ hi (by simp [keyByName_some s key k hk]) hid
    | none =>
      simp only
      have hi' := addKey_inv s key hi hk
      refine push_inv _ ⟨id, s.keys.length, v⟩ hi' (by simp [getLive_append]) ?_
      intro i h
      exact hid i h

/-! ### removing -/

theorem removeData_inv (s s' : DSet) (d : Nat) (hi : Inv s) (h : s.removeData d = some s') : Inv s' := by
  unfold DSet.removeData at h
  cases hx : getLive s.data d with
  | none => simp [hx] at h
  | some x =>
    simp only [hx, Option.some.injEq] at h
    subst h
    have hdlt : d < s.data.length := getLive_lt _ _ _ hx
    refine ⟨hi.keysUnique, ?_, ?_, ?_, ?_⟩
    · intro d1 d2 x1 x2 i h1 h2 e1 e2
      simp only [getLive_setAt] at h1 h2
      split at h1
      · cases h1
      · split at h2
        · cases h2
        · exact hi.idsUnique d1 d2 x1 x2 i h1 h2 e1 e2
    · intro k d'
      simp only [idxGet_idxRemove, getLive_setAt]
      by_cases hkk : k = x.key
      · subst hkk
        simp only [if_true]
        rw [mem_erase_sorted _ _ _ (hi.idxSorted x.key), hi.idxExact]
        constructor
        · rintro ⟨⟨y, hy, hyk⟩, hne⟩
          refine ⟨y, ?_, hyk⟩
          have : ¬ (d = d' ∧ d < s.data.length) := fun c => hne c.1.symm
          simp [this, hy]
        · rintro ⟨y, hy, hyk⟩
          split at hy
          · cases hy
          · rename_i c
            refine ⟨⟨y, hy, hyk⟩, ?_⟩
            intro e; exact c ⟨e.symm, hdlt⟩
      · simp only [hkk, if_false]
        rw [hi.idxExact]
        constructor
        · rintro ⟨y, hy, hyk⟩
          refine ⟨y, ?_, hyk⟩
          have : ¬ (d = d' ∧ d < s.data.length) := by
            rintro ⟨e, _⟩; subst e; rw [hx] at hy; cases hy; exact hkk hyk.symm
          simp [this, hy]
        · rintro ⟨y, hy, hyk⟩
          split at hy
          · cases hy
          · exact ⟨y, hy, hyk⟩
    · intro k
      simp only [idxGet_idxRemove]
      by_cases hkk : k = x.key
      · simp only [hkk, if_true]; exact sorted_erase _ _ (hi.idxSorted _)
      · simp only [hkk, if_false]; exact hi.idxSorted k
    · intro d' y hy
      simp only [getLive_setAt] at hy
      split at hy
      · cases hy
      · exact hi.keysLive d' y hy

theorem removeData_data (s s' : DSet) (d : Nat) (h : s.removeData d = some s') :
    (∀ d', getLive s'.data d' = if d' = d then none else getLive s.data d') ∧ s'.keys = s.keys := by
  unfold DSet.removeData at h
  cases hx : getLive s.data d with
  | none => simp [hx] at h
  | some x =>
    simp only [hx, Option.some.injEq] at h
    subst h
    refine ⟨?_, rfl⟩
    intro d'
    simp only [getLive_setAt]
    have hdlt : d < s.data.length := getLive_lt _ _ _ hx
    by_cases e : d' = d
    · subst e; simp [hdlt]
    · have : ¬ (d = d' ∧ d < s.data.length) := fun c => e c.1.symm
      simp [this, e]

theorem removeAll_inv : ∀ (l : List Nat) (s : DSet), Inv s → Inv (s.removeAll l) := by
  intro l
  induction l with
  | nil => intro s hi; exact hi
  | cons d r ih =>
    intro s hi
    simp only [DSet.removeAll]
    cases h : s.removeData d with
    | none => simpa using ih s hi
    | some s' => simpa using ih s' (removeData_inv s s' d hi h)

theorem removeAll_data : ∀ (l : List Nat) (s : DSet),
    (∀ d', getLive (s.removeAll l).data d' = if d' ∈ l then none else getLive s.data d') ∧ (s.removeAll l).keys = s.keys := by
  intro l
  induction l with
  | nil => intro s; simp [DSet.removeAll]
  | cons d r ih =>
    intro s
    simp only [DSet.removeAll]
    cases h : s.removeData d with
    | none =>
      have hdead : getLive s.data d = none := by
        unfold DSet.removeData at h
        cases hx : getLive s.data d with
        | none => rfl
        | some x => simp [hx] at h
      obtain ⟨h1, h2⟩ := ih s
      refine ⟨?_, by simpa using h2⟩
      intro d'
      simp only [Option.getD_none, h1, List.mem_cons]
      by_cases e : d' = d
      · subst e; simp [hdead]
      · simp [e]
    | some s' =>
      obtain ⟨hd, hk⟩ := removeData_data s s' d h
      obtain ⟨h1, h2⟩ := ih s'
      refine ⟨?_, by simpa [hk] using h2⟩
      intro d'
      simp only [Option.getD_some, h1, hd, List.mem_cons]
      by_cases e : d' = d
      · subst e; simp
      · simp [e]

theorem removeKey_inv (s s' : DSet) (k : Nat) (hi : Inv s) (h : s.removeKey k = some s') : Inv s' := by
  unfold DSet.removeKey at h
  cases hk : getLive s.keys k with
  | none => simp [hk] at h
  | some nm =>
    simp only [hk, Option.some.injEq] at h
    subst h
    have h1 := removeAll_inv (s.dataByKey k) s hi
    obtain ⟨hd, hkeys⟩ := removeAll_data (s.dataByKey k) s
    -- no live item carries the key any more
    have hgone : ∀ d x, getLive (s.removeAll (s.dataByKey k)).data d = some x → x.key ≠ k := by
      intro d x hx hxk
      rw [hd] at hx
      split at hx
      · cases hx
      · rename_i hnot
        exact hnot ((hi.idxExact k d).mpr ⟨x, hx, hxk⟩)
    refine ⟨?_, h1.idsUnique, ?_, ?_, ?_⟩
    · intro k1 k2 n l1 l2
      simp only [getLive_setAt] at l1 l2
      split at l1
      · cases l1
      · split at l2
        · cases l2
        · exact h1.keysUnique k1 k2 n l1 l2
    · intro k' d
      simp only [idxGet_idxClear]
      by_cases e : k' = k
      · subst e
        simp only [if_true, List.not_mem_nil, false_iff]
        rintro ⟨x, hx, hxk⟩
        exact hgone d x hx hxk
      · simp only [e, if_false]
        exact h1.idxExact k' d
    · intro k'
      simp only [idxGet_idxClear]
      by_cases e : k' = k
      · simp [e, Sorted]
      · simp only [e, if_false]; exact h1.idxSorted k'
    · intro d x hx
      have hl := h1.keysLive d x hx
      have hne := hgone d x hx
      simp only [getLive_setAt]
      have : ¬ (k = x.key ∧ k < (s.removeAll (s.dataByKey k)).keys.length) := fun c => hne c.1.symm
      simp only [this, if_false]
      exact hl

/-! ### merging -/

def KeyLive (s : DSet) (k : Nat) : Prop := (getLive s.keys k).isSome

theorem mergeKey_spec (s : DSet) (n : String) (hi : Inv s) :
    Inv (s.mergeKey n).2 ∧ KeyLive (s.mergeKey n).2 (s.mergeKey n).1 ∧ (∀ k, KeyLive s k → KeyLive (s.mergeKey n).2 k) ∧
    (s.mergeKey n).2.data = s.data := by
  unfold DSet.mergeKey
  cases hk : s.keyByName n with
  | some k => exact ⟨hi, by simp [KeyLive, keyByName_some s n k hk], fun _ h => h, rfl⟩
  | none =>
    refine ⟨addKey_inv s n hi hk, by simp [KeyLive, getLive_append], ?_, rfl⟩
    intro k h
    simp only [KeyLive] at h ⊢
    have hlt : k < s.keys.length := by
      cases hx : getLive s.keys k with
      | none => simp [hx] at h
      | some a => exact getLive_lt _ _ _ hx
    simp only [getLive_append, hlt, if_true]
    exact h

theorem mergeKeys_spec : ∀ (l : List (Option String)) (s : DSet), Inv s →
    Inv (s.mergeKeys l).2 ∧ (∀ (j k : Nat), ((s.mergeKeys l).1[j]?).join = some k → KeyLive (s.mergeKeys l).2 k) ∧
    (∀ k, KeyLive s k → KeyLive (s.mergeKeys l).2 k) ∧ (s.mergeKeys l).2.data = s.data := by
  intro l
  induction l with
  | nil => intro s hi; exact ⟨hi, by simp [DSet.mergeKeys], fun _ h => h, rfl⟩
  | cons a r ih =>
    intro s hi
    cases a with
    | none =>
      obtain ⟨h1, h2, h3, h4⟩ := ih s hi
      refine ⟨h1, ?_, h3, h4⟩
      intro j k hj
      cases j with
      | zero => simp [DSet.mergeKeys] at hj
      | succ j => exact h2 j k (by simpa [DSet.mergeKeys] using hj)
    | some n =>
      obtain ⟨q1, q2, q3, q4⟩ := mergeKey_spec s n hi
      obtain ⟨h1, h2, h3, h4⟩ := ih (s.mergeKey n).2 q1
      refine ⟨h1, ?_, fun k h => h3 k (q3 k h), by simp only [DSet.mergeKeys]; rw [h4, q4]⟩
      intro j k hj
      cases j with
      | zero =>
        simp only [DSet.mergeKeys, List.getElem?_cons_zero, Option.join_some, Option.some.injEq] at hj
        subst hj
        exact h3 _ q2
      | succ j => exact h2 j k (by simpa [DSet.mergeKeys] using hj)

theorem mergeDatum_keys (s : DSet) (x : Datum) : (s.mergeDatum x).keys = s.keys := by
  unfold DSet.mergeDatum
  cases x.id with
  | none => simp only; split <;> rfl
  | some id =>
    simp only
    cases s.dataById id with
    | none => rfl
    | some d =>
      simp only
      cases getLive s.data d with
      | none => rfl
      | some old => simp only; split <;> rfl

/-- one item of the other set keeps the invariant: also when it overwrites an item that is here under the same
identifier with another key (the index follows) -/
theorem mergeDatum_inv (s : DSet) (x : Datum) (hi : Inv s) (hk : KeyLive s x.key) : Inv (s.mergeDatum x) := by
  unfold DSet.mergeDatum
  cases hid : x.id with
  | none =>
    simp only
    split
    · exact hi
    · exact push_inv s x hi hk (by intro i h; rw [hid] at h; cases h)
  | some id =>
    simp only
    cases hd : s.dataById id with
    | none => exact push_inv s x hi hk (by intro i h; rw [hid] at h; cases h; exact hd)
    | some d =>
      simp only
      cases hold : getLive s.data d with
      | none => exact hi
      | some old =>
        simp only
        split
        · exact hi
        · obtain ⟨old', ho', hoid⟩ := dataById_some s id d hd
          rw [hold] at ho'; cases ho'
          have hdlt : d < s.data.length := getLive_lt _ _ _ hold
          have hget : ∀ d', getLive (setAt s.data d (some x)) d' = if d' = d then some x else getLive s.data d' := by
            intro d'
            rw [getLive_setAt]
            by_cases e : d' = d
            · subst e; simp [hdlt]
            · have : ¬ (d = d' ∧ d < s.data.length) := fun c => e c.1.symm
              simp [this, e]
          refine ⟨hi.keysUnique, ?_, ?_, ?_, ?_⟩
          · intro d1 d2 x1 x2 i h1 h2 e1 e2
            simp only [hget] at h1 h2
            by_cases c1 : d1 = d
            · by_cases c2 : d2 = d
              · rw [c1, c2]
              · simp only [c1, if_true, Option.some.injEq] at h1
                simp only [c2, if_false] at h2
                subst h1
                rw [hid] at e1; cases e1
                rw [c1]
                exact hi.idsUnique d d2 old x2 id hold h2 hoid e2
            · simp only [c1, if_false] at h1
              by_cases c2 : d2 = d
              · simp only [c2, if_true, Option.some.injEq] at h2
                subst h2
                rw [hid] at e2; cases e2
                rw [c2]
                exact hi.idsUnique d1 d x1 old id h1 hold e1 hoid
              · simp only [c2, if_false] at h2
                exact hi.idsUnique d1 d2 x1 x2 i h1 h2 e1 e2
          · intro k d'
            simp only [hget]
            by_cases hsame : old.key = x.key
            · simp only [hsame, if_true]
              rw [hi.idxExact]
              constructor
              · rintro ⟨y, hy, hyk⟩
                by_cases e : d' = d
                · subst e; rw [hold] at hy; cases hy
                  exact ⟨x, by simp, by rw [← hsame]; exact hyk⟩
                · exact ⟨y, by simp [e, hy], hyk⟩
              · rintro ⟨y, hy, hyk⟩
                by_cases e : d' = d
                · subst e; simp only [if_true, Option.some.injEq] at hy; subst hy
                  exact ⟨old, hold, by rw [hsame]; exact hyk⟩
                · simp only [e, if_false] at hy; exact ⟨y, hy, hyk⟩
            · simp only [hsame, if_false, idxGet_idxInsert, idxGet_idxRemove]
              have hs1 : Sorted ((idxGet s.idx old.key).erase d) := sorted_erase _ _ (hi.idxSorted _)
              by_cases k1 : k = x.key
              · subst k1
                have hne : ¬ x.key = old.key := fun h => hsame h.symm
                simp only [if_true, hne, if_false]
                rw [mem_relInsert _ _ _ (hi.idxSorted x.key), hi.idxExact]
                constructor
                · rintro (rfl | ⟨y, hy, hyk⟩)
                  · exact ⟨x, by simp, rfl⟩
                  · have e : d' ≠ d := by
                      rintro rfl; rw [hold] at hy; cases hy; exact hsame hyk
                    exact ⟨y, by simp [e, hy], hyk⟩
                · rintro ⟨y, hy, hyk⟩
                  by_cases e : d' = d
                  · exact Or.inl e
                  · simp only [e, if_false] at hy; exact Or.inr ⟨y, hy, hyk⟩
              · simp only [k1, if_false]
                by_cases k2 : k = old.key
                · subst k2
                  simp only [if_true]
                  rw [mem_erase_sorted _ _ _ (hi.idxSorted old.key), hi.idxExact]
                  constructor
                  · rintro ⟨⟨y, hy, hyk⟩, e⟩
                    exact ⟨y, by simp [e, hy], hyk⟩
                  · rintro ⟨y, hy, hyk⟩
                    by_cases e : d' = d
                    · subst e; simp only [if_true, Option.some.injEq] at hy; subst hy
                      exact absurd hyk.symm k1
                    · simp only [e, if_false] at hy; exact ⟨⟨y, hy, hyk⟩, e⟩
                · simp only [k2, if_false]
                  rw [hi.idxExact]
                  constructor
                  · rintro ⟨y, hy, hyk⟩
                    have e : d' ≠ d := by
                      rintro rfl; rw [hold] at hy; cases hy; exact k2 hyk.symm
                    exact ⟨y, by simp [e, hy], hyk⟩
                  · rintro ⟨y, hy, hyk⟩
                    by_cases e : d' = d
                    · subst e; simp only [if_true, Option.some.injEq] at hy; subst hy
                      exact absurd hyk.symm k1
                    · simp only [e, if_false] at hy; exact ⟨y, hy, hyk⟩
          · intro k
            by_cases hsame : old.key = x.key
            · simp only [hsame, if_true]; exact hi.idxSorted k
            · simp only [hsame, if_false, idxGet_idxInsert, idxGet_idxRemove]
              by_cases k1 : k = x.key
              · simp only [k1, if_true]
                apply sorted_relInsert
                split
                · exact sorted_erase _ _ (hi.idxSorted _)
                · exact hi.idxSorted _
              · simp only [k1, if_false]
                split
                · exact sorted_erase _ _ (hi.idxSorted _)
                · exact hi.idxSorted _
          · intro d' y hy
            simp only [hget] at hy
            by_cases e : d' = d
            · simp only [e, if_true, Option.some.injEq] at hy; subst hy; exact hk
            · simp only [e, if_false] at hy; exact hi.keysLive d' y hy

theorem mergeData_inv (kmap : List (Option Nat)) : ∀ (l : List (Option Datum)) (s : DSet), Inv s →
    (∀ (j k : Nat), (kmap[j]?).join = some k → KeyLive s k) → Inv (s.mergeData kmap l).2 := by
  intro l
  induction l with
  | nil => intro s hi _; exact hi
  | cons a r ih =>
    intro s hi hm
    cases a with
    | none => exact ih s hi hm
    | some x =>
      simp only [DSet.mergeData]
      cases hk : (kmap[x.key]?).join with
      | none => exact hi
      | some k =>
        simp only
        have hkl : KeyLive s k := hm x.key k hk
        apply ih _ (mergeDatum_inv s { x with key := k } hi hkl)
        intro j k' hj
        simp only [KeyLive, mergeDatum_keys]
        exact hm j k' hj

/-- **merging another dataset keeps the invariant**, whatever the other dataset holds (no assumption on it) -/
theorem merge_inv (s other : DSet) (hi : Inv s) : Inv (s.merge other).2 := by
  unfold DSet.merge
  obtain ⟨h1, h2, _, _⟩ := mergeKeys_spec other.keys s hi
  exact mergeData_inv _ other.data _ h1 h2

/-! ### every reachable state -/

theorem step_inv (p : DSet × DSet) (op : Op) (h1 : Inv p.1) (h2 : Inv p.2) : Inv (step p op).1 ∧ Inv (step p op).2 := by
  cases op with
  | ins reg id k v sf =>
    cases reg
    · exact ⟨insertData_inv _ _ _ _ _ h1, h2⟩
    · exact ⟨h1, insertData_inv _ _ _ _ _ h2⟩
  | rmData reg d =>
    cases reg
    · simp only [step]
      refine ⟨?_, h2⟩
      cases h : p.1.removeData d with
      | none => simpa using h1
      | some s' => simpa using removeData_inv _ _ _ h1 h
    · simp only [step]
      refine ⟨h1, ?_⟩
      cases h : p.2.removeData d with
      | none => simpa using h2
      | some s' => simpa using removeData_inv _ _ _ h2 h
  | rmKey reg k =>
    cases reg
    · simp only [step]
      refine ⟨?_, h2⟩
      cases h : p.1.removeKey k with
      | none => simpa using h1
      | some s' => simpa using removeKey_inv _ _ _ h1 h
    · simp only [step]
      refine ⟨h1, ?_⟩
      cases h : p.2.removeKey k with
      | none => simpa using h2
      | some s' => simpa using removeKey_inv _ _ _ h2 h
  | merge => exact ⟨merge_inv _ _ h1, inv_empty⟩

theorem foldl_inv : ∀ (ops : List Op) (p : DSet × DSet), Inv p.1 → Inv p.2 →
    Inv (ops.foldl step p).1 ∧ Inv (ops.foldl step p).2 := by
  intro ops
  induction ops with
  | nil => intro p h1 h2; exact ⟨h1, h2⟩
  | cons op r ih =>
    intro p h1 h2
    obtain ⟨a, b⟩ := step_inv p op h1 h2
    exact ih _ a b

/-- **at all times**: after any sequence of insertions (safe or not), removals, key removals and merges, each key name
exists once, each identifier once, and every key lists exactly the live items that carry it, each once -/
theorem reachable_inv (ops : List Op) : Inv (run ops).1 ∧ Inv (run ops).2 :=
  foldl_inv ops _ inv_empty inv_empty

/-! ### the vocabulary is shared -/

/-- data without identifier exists once per (key, value) -/
def Shared (s : DSet) : Prop :=
  ∀ d1 d2 x1 x2, getLive s.data d1 = some x1 → getLive s.data d2 = some x2 → x1.id = none → x2.id = none →
    x1.key = x2.key → x1.val = x2.val → d1 = d2

theorem dataByValue_none (s : DSet) (hi : Inv s) (k : Nat) (v : String) (h : s.dataByValue k v = none) :
    ∀ d x, getLive s.data d = some x → x.key = k → x.val ≠ v := by
  intro d x hx hk hv
  unfold DSet.dataByValue at h
  rw [List.find?_eq_none] at h
  have hm : d ∈ idxGet s.idx k := (hi.idxExact k d).mpr ⟨x, hx, hk⟩
  have := h d hm
  simp [hx, hv] at this

theorem dataByValue_some (s : DSet) (hi : Inv s) (k : Nat) (v : String) (d : Nat) (h : s.dataByValue k v = some d) :
    ∃ x, getLive s.data d = some x ∧ x.key = k ∧ x.val = v := by
  unfold DSet.dataByValue at h
  have hp := List.find?_some h
  have hm := List.mem_of_find?_eq_some h
  obtain ⟨x, hx, hk⟩ := (hi.idxExact k d).mp hm
  refine ⟨x, hx, hk, ?_⟩
  simpa [hx] using hp

/-- the `expect("getting item")` of `data_by_value` cannot fire: whatever the index lists is live -/
theorem listed_is_live (s : DSet) (hi : Inv s) (k d : Nat) (h : d ∈ s.dataByKey k) : (getLive s.data d).isSome := by
  obtain ⟨x, hx, _⟩ := (hi.idxExact k d).mp h
  simp [hx]

theorem push_shared (s : DSet) (x : Datum) (hs : Shared s)
    (hnew : x.id = none → ∀ d y, getLive s.data d = some y → y.key = x.key → y.val ≠ x.val) : Shared (s.push x).2 := by
  intro d1 d2 x1 x2 h1 h2 e1 e2 ek ev
  simp only [DSet.push, getLive_append] at h1 h2
  by_cases c1 : d1 < s.data.length
  · simp only [c1, if_true] at h1
    by_cases c2 : d2 < s.data.length
    · simp only [c2, if_true] at h2
      exact hs d1 d2 x1 x2 h1 h2 e1 e2 ek ev
    · simp only [c2, if_false] at h2
      split at h2
      · cases h2
        exact absurd ev (hnew e2 d1 x1 h1 ek)
      · cases h2
  · simp only [c1, if_false] at h1
    split at h1
    · cases h1
      by_cases c2 : d2 < s.data.length
      · simp only [c2, if_true] at h2
        exact absurd ev.symm (hnew e1 d2 x2 h2 ek.symm)
      · simp only [c2, if_false] at h2
        split at h2
        · omega
        · cases h2
    · cases h1

theorem shared_of_sub (s s' : DSet) (hs : Shared s)
    (hsub : ∀ d x, getLive s'.data d = some x → getLive s.data d = some x) : Shared s' := by
  intro d1 d2 x1 x2 h1 h2
  exact hs d1 d2 x1 x2 (hsub _ _ h1) (hsub _ _ h2)

/-- an insertion that names an identifier, or asks for the look-up (`safety`), keeps the vocabulary shared -/
theorem insertData_shared (s : DSet) (id : Option String) (key v : String) (sf : Bool) (hi : Inv s) (hs : Shared s)
    (hsafe : id.isSome ∨ sf = true) : Shared (s.insertData id key v sf).2 := by
  unfold DSet.insertData
  cases hd : id.bind s.dataById with
  | some d => exact hs
  | none =>
    simp only
    cases hk : s.keyByName key with
    | some k =>
      simp only
      cases id with
      | some i =>
        simp only [Option.isNone_some, Bool.false_and]
        exact push_shared s _ hs (by intro h; cases h)
      | none =>
        have hsf : sf = true := by simpa using hsafe
        subst hsf
        simp only [Option.isNone_none, Bool.and_self, if_true]
        cases hv : s.dataByValue k v with
        | some d => exact hs
        | none =>
          simp only
          exact push_shared s _ hs (fun _ d y hy hyk => dataByValue_none s hi k v hv d y hy hyk)
    | none =>
      simp only
      refine push_shared _ _ (shared_of_sub s _ hs (fun _ _ h => h)) ?_
      intro _ d y hy hyk
      have h := hi.keysLive d y hy
      have hlt : y.key < s.keys.length := by
        cases hx : getLive s.keys y.key with
        | none => simp [hx] at h
        | some a => exact getLive_lt _ _ _ hx
      simp only at hyk
      omega

theorem removeData_shared (s s' : DSet) (d : Nat) (hs : Shared s) (h : s.removeData d = some s') : Shared s' := by
  obtain ⟨hd, _⟩ := removeData_data s s' d h
  apply shared_of_sub s s' hs
  intro d' x hx
  rw [hd] at hx
  split at hx
  · cases hx
  · exact hx

theorem removeAll_shared (s : DSet) (l : List Nat) (hs : Shared s) : Shared (s.removeAll l) := by
  obtain ⟨hd, _⟩ := removeAll_data l s
  apply shared_of_sub s _ hs
  intro d' x hx
  rw [hd] at hx
  split at hx
  · cases hx
  · exact hx

theorem removeKey_shared (s s' : DSet) (k : Nat) (hs : Shared s) (h : s.removeKey k = some s') : Shared s' := by
  unfold DSet.removeKey at h
  cases hk : getLive s.keys k with
  | none => simp [hk] at h
  | some nm =>
    simp only [hk, Option.some.injEq] at h
    subst h
    exact shared_of_sub _ _ (removeAll_shared s _ hs) (fun _ _ h => h)

/-- one item of the other set keeps the vocabulary shared: data without identifier that is here already is not added
again (3c082a3; before it, a dataset merged in twice doubled) -/
theorem mergeDatum_shared (s : DSet) (x : Datum) (hi : Inv s) (hs : Shared s) : Shared (s.mergeDatum x) := by
  unfold DSet.mergeDatum
  cases hid : x.id with
  | none =>
    simp only
    cases hv : s.dataByValue x.key x.val with
    | some d => simpa using hs
    | none =>
      simp only [Option.isSome_none, Bool.false_eq_true, if_false]
      exact push_shared s x hs (fun _ d y hy hyk => dataByValue_none s hi x.key x.val hv d y hy hyk)
  | some id =>
    simp only
    cases hd : s.dataById id with
    | none => exact push_shared s x hs (by intro h; rw [hid] at h; cases h)
    | some d =>
      simp only
      cases hold : getLive s.data d with
      | none => exact hs
      | some old =>
        simp only
        split
        · exact hs
        · have hdlt : d < s.data.length := getLive_lt _ _ _ hold
          intro d1 d2 x1 x2 h1 h2 e1 e2 ek ev
          simp only [getLive_setAt] at h1 h2
          split at h1
          · cases h1; rw [hid] at e1; cases e1
          · split at h2
            · cases h2; rw [hid] at e2; cases e2
            · exact hs d1 d2 x1 x2 h1 h2 e1 e2 ek ev

theorem mergeData_shared (kmap : List (Option Nat)) : ∀ (l : List (Option Datum)) (s : DSet), Inv s → Shared s →
    (∀ (j k : Nat), (kmap[j]?).join = some k → KeyLive s k) → Shared (s.mergeData kmap l).2 := by
  intro l
  induction l with
  | nil => intro s _ hs _; exact hs
  | cons a r ih =>
    intro s hi hs hm
    cases a with
    | none => exact ih s hi hs hm
    | some x =>
      simp only [DSet.mergeData]
      cases hk : (kmap[x.key]?).join with
      | none => exact hs
      | some k =>
        simp only
        have hkl : KeyLive s k := hm x.key k hk
        apply ih _ (mergeDatum_inv s { x with key := k } hi hkl) (mergeDatum_shared s _ hi hs)
        intro j k' hj
        simp only [KeyLive, mergeDatum_keys]
        exact hm j k' hj

/-- **merging keeps the vocabulary shared**, whatever the other dataset holds — also the same dataset a second time -/
theorem merge_shared (s other : DSet) (hi : Inv s) (hs : Shared s) : Shared (s.merge other).2 := by
  unfold DSet.merge
  obtain ⟨h1, h2, _, h4⟩ := mergeKeys_spec other.keys s hi
  exact mergeData_shared _ other.data _ h1 (shared_of_sub s _ hs (by intro d x h; rw [h4] at h; exact h)) h2

/-- insertions into the first dataset that name an identifier or ask for the look-up; anything goes for the second -/
def Op.safe : Op → Prop
  | .ins false id _ _ sf => id.isSome ∨ sf = true
  | _ => True

theorem foldl_shared : ∀ (ops : List Op) (p : DSet × DSet), (∀ op ∈ ops, op.safe) → Inv p.1 → Inv p.2 → Shared p.1 →
    Shared (ops.foldl step p).1 := by
  intro ops
  induction ops with
  | nil => intro p _ _ _ hs; exact hs
  | cons op r ih =>
    intro p hsafe h1 h2 hs
    obtain ⟨a, b⟩ := step_inv p op h1 h2
    refine ih _ (fun o ho => hsafe o (List.mem_cons_of_mem _ ho)) a b ?_
    have hop := hsafe op (List.mem_cons_self ..)
    cases op with
    | ins reg id k v sf =>
      cases reg
      · exact insertData_shared _ _ _ _ _ h1 hs hop
      · exact hs
    | rmData reg d =>
      cases reg
      · simp only [step]
        cases h : p.1.removeData d with
        | none => simpa using hs
        | some s' => simpa using removeData_shared _ _ _ hs h
      · exact hs
    | rmKey reg k =>
      cases reg
      · simp only [step]
        cases h : p.1.removeKey k with
        | none => simpa using hs
        | some s' => simpa using removeKey_shared _ _ _ hs h
      · exact hs
    | merge => exact merge_shared _ _ h1 hs

/-- **the same (key, value) never yields a second data item**: after any sequence of operations whose insertions into
the dataset name an identifier or ask for the look-up — merges of arbitrary other datasets included — data without
identifier exists once per (key, value) -/
theorem reachable_shared (ops : List Op) (h : ∀ op ∈ ops, op.safe) : Shared (run ops).1 :=
  foldl_shared ops _ h inv_empty inv_empty (by intro d1 d2 x1 x2 h1; simp [getLive] at h1)

/-! ### what the API answers -/

/-- **asking a key for its data returns exactly the items carrying that key, at all times**, each once -/
theorem key_lists_exactly_its_items (ops : List Op) (k d : Nat) :
    (d ∈ (run ops).1.dataByKey k ↔ ∃ x, getLive (run ops).1.data d = some x ∧ x.key = k) ∧
    ((run ops).1.dataByKey k).Nodup :=
  ⟨(reachable_inv ops).1.idxExact k d, sorted_nodup ((reachable_inv ops).1.idxSorted k)⟩

/-- **annotation data added without an explicit identifier is shared**: inserting a (key, value) that is there returns
an item that carries it and leaves the dataset as it is -/
theorem insert_existing_is_shared (s : DSet) (hi : Inv s) (key v : String) (k d0 : Nat) (x0 : Datum)
    (hk : s.keyByName key = some k) (h0 : getLive s.data d0 = some x0) (hk0 : x0.key = k) (hv0 : x0.val = v) :
    ∃ d x, s.insertData none key v true = (d, s) ∧ getLive s.data d = some x ∧ x.key = k ∧ x.val = v := by
  unfold DSet.insertData
  simp only [Option.bind_none, hk, Option.isNone_none, Bool.and_self, if_true]
  cases hv : s.dataByValue k v with
  | none => exact absurd hv0 (dataByValue_none s hi k v hv d0 x0 h0 hk0)
  | some d =>
    obtain ⟨x, hx, hxk, hxv⟩ := dataByValue_some s hi k v d hv
    exact ⟨d, x, rfl, hx, hxk, hxv⟩

/-- … and when the vocabulary is shared and that item has no identifier, it is *the* item -/
theorem insert_existing_returns_the_item (s : DSet) (hi : Inv s) (hs : Shared s) (key v : String) (k d0 : Nat) (x0 : Datum)
    (hk : s.keyByName key = some k) (h0 : getLive s.data d0 = some x0) (hk0 : x0.key = k) (hv0 : x0.val = v)
    (hid : x0.id = none) (hnoid : ∀ d x, getLive s.data d = some x → x.key = k → x.val = v → x.id = none) :
    s.insertData none key v true = (d0, s) := by
  obtain ⟨d, x, he, hx, hxk, hxv⟩ := insert_existing_is_shared s hi key v k d0 x0 hk h0 hk0 hv0
  have : d = d0 := hs d d0 x x0 hx h0 (hnoid d x hx hxk hxv) hid (by rw [hxk, hk0]) (by rw [hxv, hv0])
  rw [he, this]

/-! ### the premises are met, and the defects repaired in 3c082a3 and d4442d4 are what the theorems exclude -/

/-- a dataset with two keys and three items, one shared -/
def sample : DSet := (run [.ins false none "pos" "noun" true, .ins false (some "D1") "pos" "verb" true,
  .ins false none "lemma" "noun" true, .ins false none "pos" "noun" true]).1

example : sample = ⟨[some "pos", some "lemma"],
    [some ⟨none, 0, "noun"⟩, some ⟨some "D1", 0, "verb"⟩, some ⟨none, 1, "noun"⟩], [[0, 1], [2]]⟩ := by decide

/-- the same dataset merged in twice: nothing doubles -/
example : (sample.merge sample).2 = sample := by decide

/-- a second document carries D1 under another key: the item moves, and so does its index entry -/
example : (sample.merge ⟨[some "lemma"], [some ⟨some "D1", 0, "x"⟩], [[0]]⟩).2 =
    ⟨[some "pos", some "lemma"], [some ⟨none, 0, "noun"⟩, some ⟨some "D1", 1, "x"⟩, some ⟨none, 1, "noun"⟩],
      [[0], [1, 2]]⟩ := by decide

/-- an insertion without the look-up (`safety = false`, what the loaders do) is what `Op.safe` excludes: it does double -/
example : ¬ Shared (run [.ins false none "pos" "noun" true, .ins false none "pos" "noun" false]).1 := by
  intro h
  have := h 0 1 ⟨none, 0, "noun"⟩ ⟨none, 0, "noun"⟩ (by decide) (by decide) rfl rfl rfl rfl
  omega

end Stam.Vocab
