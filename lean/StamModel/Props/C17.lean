import StamModel.WebAnno
import StamModel.Lemmas.WebAnnoDoc
/-
  C17 — Web Annotation export is well-formed JSON faithful to the annotation: strings and values.

  Statement (properties.jsonl): exporting any annotation that the exporter accepts produces a single well-formed
  JSON object whose target names the same resources and absolute offsets [...] and whose body carries each data
  value with the same content and JSON type - whatever characters the identifiers, keys and values contain.

  Proved here, about `StamModel/WebAnno.lean`:
   * `parseString_jsonStr` — every string (identifier, key, value: any characters) written by `json_str` is one JSON
     string literal that a reader following RFC 8259 reads back as exactly that string;
   * `value_json_roundtrip` — every data value (null, booleans, integers, floats as literals, strings, lists nested
     to any depth) written by `value_to_json` is one JSON value with the same content and JSON type;
   * `intoIri_clean` — identifiers turned into IRIs contain none of the characters `into_iri` promises to remove.
  Proved here, about `StamModel/WebAnnoDoc.lean` (the assembly of the document, token by token, as the code does it
  with its flags and emptiness tests):
   * `export_is_the_specified_document` — for every configuration, every list of data items and every target the
     exporter accepts, the tokens written are exactly those of `specDoc`: the JSON object with the members
     `@context`, `id` (if any), `type`, the annotation-level properties in data order, the automatic `generated` /
     `generator` unless given explicitly, `body` (iff some data item belongs there; default `type` and `id` unless
     given) and `target` (first pass, and the second pass when an extra-target template meets nested text selectors);
   * `export_wellformed` — that document is well-formed JSON (`WF`: the grammar of JSON over tokens): no comma is
     missing, doubled or trailing, whatever the order and kind of the data items and the shape of the target;
   * `not_accepted_is_empty` — a target the exporter does not accept gives the empty string.
  What remains outside the model: that a token sequence is laid out as text with the literals of the first two
  theorems (whitespace, the key strings), the IRI of each item and the expansion of the extra-target template — the
  `webanno` family compares the model's tokens with the tokens of every real export, and reads every export with
  serde_json. C17 stays partial in that sense.
-/
namespace Stam.WA.C17
open Stam.WA

theorem hexVal_hexDigit (k : Nat) (h : k < 16) : hexVal? (hexDigit k) = some k := by
  have : k = 0 ∨ k = 1 ∨ k = 2 ∨ k = 3 ∨ k = 4 ∨ k = 5 ∨ k = 6 ∨ k = 7 ∨ k = 8 ∨ k = 9 ∨ k = 10 ∨ k = 11 ∨ k = 12 ∨ k = 13 ∨ k = 14 ∨ k = 15 := by omega
  rcases this with rfl | rfl | rfl | rfl | rfl | rfl | rfl | rfl | rfl | rfl | rfl | rfl | rfl | rfl | rfl | rfl <;> decide

theorem parseChars_escape (s rest : Str) : parseChars (escapeJson s ++ '"' :: rest) = some (s, rest) := by
  induction s with
  | nil => simp [escapeJson, parseChars]
  | cons c cs ih =>
    have hcons : escapeJson (c :: cs) = escapeChar c ++ escapeJson cs := by simp [escapeJson]
    rw [hcons, List.append_assoc]
    unfold escapeChar
    split
    · rename_i h; subst h; simp [parseChars, ih]
    · split
      · rename_i h; subst h; simp [parseChars, ih]
      · split
        · rename_i h; subst h; simp [parseChars, ih]
        · split
          · rename_i h; subst h; simp [parseChars, ih]
          · split
            · rename_i h; subst h; simp [parseChars, ih]
            · split
              · rename_i h; subst h; simp [parseChars, ih]
              · split
                · rename_i h; subst h; simp [parseChars, ih]
                · split
                  · rename_i h1 h2 h3 h4 h5 h6 h7 hlt
                    have hz : hexVal? '0' = some 0 := by decide
                    have ha := hexVal_hexDigit (c.toNat / 16) (by omega)
                    have hb := hexVal_hexDigit (c.toNat % 16) (by omega)
                    simp only [List.cons_append, List.nil_append]
                    rw [parseChars]
                    simp only [hz, ha, hb]
                    have hn : ((0 * 16 + 0) * 16 + c.toNat / 16) * 16 + c.toNat % 16 = c.toNat := by omega
                    simp only [hn]
                    have hs : ¬ (0xD800 ≤ c.toNat ∧ c.toNat ≤ 0xDFFF) := by omega
                    simp [hs, ih, Char.ofNat_toNat]
                  · rename_i h1 h2 h3 h4 h5 h6 h7 hge
                    simp only [List.cons_append, List.nil_append]
                    rw [parseChars]
                    · simp [hge, ih]
                    all_goals simp_all

/-- **C17 (strings).** Whatever characters a string contains, `json_str` writes one JSON string literal which reads
back as that string, and nothing of what follows is consumed. -/
theorem parseString_jsonStr (s rest : Str) : parseString (jsonStr s ++ rest) = some (s, rest) := by
  have : jsonStr s ++ rest = '"' :: (escapeJson s ++ '"' :: rest) := by simp [jsonStr]
  rw [this]
  simp [parseString, parseChars_escape]

def NumLit (l : Str) : Prop := l ≠ [] ∧ ∀ c ∈ l, isNumChar c = true
def NoNumStart (rest : Str) : Prop := ∀ c r, rest = c :: r → isNumChar c = false

mutual
def okV : WV → Prop
  | .lit l => NumLit l
  | .list xs => okVs xs
  | _ => True
def okVs : WVs → Prop
  | .nil => True
  | .cons x xs => okV x ∧ okVs xs
end

def isWsJ (c : Char) : Bool := c = ' ' ∨ c = '\t' ∨ c = '\n' ∨ c = '\r'

theorem skipWs_cons_nonws (c : Char) (s : Str) (h : isWsJ c = false) : skipWs (c :: s) = c :: s := by
  unfold skipWs; simp [isWsJ] at h; simp [h]

theorem skipWs_spaces (k : Nat) (s : Str) : skipWs (List.replicate k ' ' ++ s) = skipWs s := by
  induction k with
  | zero => rfl
  | succ k ih => simp [List.replicate_succ, skipWs, ih]

theorem spanNum_lit (l rest : Str) (hl : ∀ c ∈ l, isNumChar c = true) (hr : NoNumStart rest) :
    spanNum (l ++ rest) = (l, rest) := by
  induction l with
  | nil =>
    cases rest with
    | nil => rfl
    | cons c r => simp [spanNum, hr c r rfl]
  | cons c cs ih =>
    have := ih (fun x hx => hl x (by simp [hx]))
    simp [spanNum, hl c (by simp), this]

theorem numChar_props (c : Char) (h : isNumChar c = true) :
    isWsJ c = false ∧ c ≠ 'n' ∧ c ≠ 't' ∧ c ≠ 'f' ∧ c ≠ '"' ∧ c ≠ '[' ∧ c ≠ ']' ∧ c ≠ ',' := by
  refine ⟨?_, ?_, ?_, ?_, ?_, ?_, ?_, ?_⟩ <;>
    (first
      | (intro hc; subst hc; revert h; decide)
      | (cases hw : isWsJ c with
         | false => rfl
         | true =>
           simp only [isWsJ, decide_eq_true_eq] at hw
           rcases hw with hc | hc | hc | hc <;> (subst hc; revert h; decide)))

theorem parseValue_num (fuel : Nat) (l rest : Str) (hl : NumLit l) (hr : NoNumStart rest) (k : Nat) :
    parseValue (fuel + 1) (List.replicate k ' ' ++ (l ++ rest)) = some (.num l, rest) := by
  obtain ⟨hne, hall⟩ := hl
  cases l with
  | nil => exact absurd rfl hne
  | cons c cs =>
    have hc := hall c (by simp)
    obtain ⟨h0, h1, h2, h3, h4, h5, h6, h7⟩ := numChar_props c hc
    unfold parseValue
    rw [skipWs_spaces, List.cons_append, skipWs_cons_nonws c _ h0]
    have hs := spanNum_lit (c :: cs) rest hall hr
    simp only [List.cons_append] at hs
    split <;> simp_all

theorem parseValue_null (fuel : Nat) (rest : Str) (k : Nat) :
    parseValue (fuel + 1) (List.replicate k ' ' ++ (['n', 'u', 'l', 'l'] ++ rest)) = some (.null, rest) := by
  unfold parseValue
  rw [skipWs_spaces]
  simp [skipWs]

theorem parseValue_bool (fuel : Nat) (b : Bool) (rest : Str) (k : Nat) (showI : Int → Str) :
    parseValue (fuel + 1) (List.replicate k ' ' ++ (renderValue showI (.bool b) ++ rest)) = some (.bool b, rest) := by
  unfold parseValue
  rw [skipWs_spaces]
  cases b <;> simp [renderValue, skipWs]

theorem parseValue_str (fuel : Nat) (s rest : Str) (k : Nat) :
    parseValue (fuel + 1) (List.replicate k ' ' ++ (jsonStr s ++ rest)) = some (.str s, rest) := by
  unfold parseValue
  rw [skipWs_spaces]
  have : jsonStr s ++ rest = '"' :: (escapeJson s ++ '"' :: rest) := by simp [jsonStr]
  rw [this, skipWs_cons_nonws _ _ (by decide)]
  simp [parseChars_escape]

/-- the first character of a rendered value is no white space and no closing bracket -/
theorem render_head (showI : Int → Str) (hI : ∀ n, NumLit (showI n)) (v : WV) (hv : okV v) :
    ∃ c r, renderValue showI v = c :: r ∧ isWsJ c = false ∧ c ≠ ']' := by
  cases v with
  | null => exact ⟨_, _, rfl, by decide, by decide⟩
  | bool b => cases b <;> exact ⟨_, _, rfl, by decide, by decide⟩
  | int n =>
    obtain ⟨hne, hall⟩ := hI n
    cases h : showI n with
    | nil => exact absurd h hne
    | cons c r =>
      have hc := hall c (by simp [h])
      have := numChar_props c hc
      exact ⟨c, r, by simp [renderValue, h], this.1, this.2.2.2.2.2.2.1⟩
  | str s => exact ⟨'"', escapeJson s ++ ['"'], by simp [renderValue, jsonStr], by decide, by decide⟩
  | lit l =>
    obtain ⟨hne, hall⟩ := (show NumLit l from by simpa [okV] using hv)
    cases l with
    | nil => exact absurd rfl hne
    | cons c r =>
      have := numChar_props c (hall c (by simp))
      exact ⟨c, r, by simp [renderValue], this.1, this.2.2.2.2.2.2.1⟩
  | list xs => exact ⟨'[', ' ' :: (renderElems showI xs ++ [' ', ']']), by simp [renderValue], by decide, by decide⟩

theorem noNum_comma (s : Str) : NoNumStart (',' :: s) := by intro c r h; cases h; decide
theorem noNum_space (s : Str) : NoNumStart (' ' :: s) := by intro c r h; cases h; decide

theorem roundtrip (showI : Int → Str) (hI : ∀ n, NumLit (showI n)) : ∀ (n : Nat),
    (∀ v, v.size ≤ n → okV v → ∀ fuel rest k, v.size ≤ fuel → NoNumStart rest →
      parseValue fuel (List.replicate k ' ' ++ (renderValue showI v ++ rest)) = some (toJ showI v, rest)) ∧
    (∀ x xs, (WVs.cons x xs).size ≤ n → okVs (.cons x xs) → ∀ fuel rest k, (WVs.cons x xs).size ≤ fuel →
      parseElems fuel (List.replicate k ' ' ++ (renderElems showI (.cons x xs) ++ ' ' :: ']' :: rest)) =
        some (toJs showI (.cons x xs), rest)) := by
  intro n
  induction n with
  | zero =>
    constructor
    · intro v hv; cases v <;> simp [WV.size] at hv
    · intro x xs h; simp [WVs.size] at h
  | succ n ih =>
    obtain ⟨ihv, ihs⟩ := ih
    constructor
    · intro v hsz hok fuel rest k hf hr
      cases fuel with
      | zero => cases v <;> simp [WV.size] at hf
      | succ fuel =>
        cases v with
        | null => simpa [renderValue, toJ] using parseValue_null fuel rest k
        | bool b => simpa [toJ] using parseValue_bool fuel b rest k showI
        | int m => simpa [renderValue, toJ] using parseValue_num fuel (showI m) rest (hI m) hr k
        | str s => simpa [renderValue, toJ] using parseValue_str fuel s rest k
        | lit l => simpa [renderValue, toJ] using parseValue_num fuel l rest (by simpa [okV] using hok) hr k
        | list xs =>
          unfold parseValue
          rw [skipWs_spaces]
          cases xs with
          | nil =>
            simp [renderValue, renderElems, skipWs, toJ, toJs]
          | cons x xs' =>
            have hsz' : (WVs.cons x xs').size ≤ n := by simp [WV.size] at hsz; omega
            have hf' : (WVs.cons x xs').size ≤ fuel := by simp [WV.size] at hf; omega
            have hok' : okVs (.cons x xs') := by simpa [okV] using hok
            have hrec := ihs x xs' hsz' hok' fuel rest 1 hf'
            obtain ⟨c, r, hhead, hws, hnb⟩ := render_head showI hI x hok'.1
            -- the text after '[' : a space, then the elements
            have hshape : renderValue showI (.list (.cons x xs')) ++ rest =
                '[' :: (List.replicate 1 ' ' ++ (renderElems showI (.cons x xs') ++ ' ' :: ']' :: rest)) := by
              simp [renderValue]
            rw [hshape, skipWs_cons_nonws _ _ (by decide)]
            have hfirst : ∃ c' r', skipWs (List.replicate 1 ' ' ++ (renderElems showI (.cons x xs') ++ ' ' :: ']' :: rest)) = c' :: r' ∧ c' ≠ ']' := by
              rw [skipWs_spaces]
              cases xs' with
              | nil => refine ⟨c, r ++ ' ' :: ']' :: rest, ?_, hnb⟩; simp [renderElems, hhead, skipWs_cons_nonws c _ hws]
              | cons y ys => refine ⟨c, r ++ (',' :: ' ' :: renderElems showI (.cons y ys)) ++ ' ' :: ']' :: rest, ?_, hnb⟩; simp [renderElems, hhead, skipWs_cons_nonws c _ hws]
            obtain ⟨c', r', hsk, hc'⟩ := hfirst
            simp only []
            rw [hsk]
            simp only [hrec, Option.map_some, toJ]
            split
            · rename_i heq; simp only [List.cons.injEq] at heq; exact absurd heq.1 hc'
            · rfl
    · intro x xs hsz hok fuel rest k hf
      cases fuel with
      | zero => simp [WVs.size] at hf
      | succ fuel =>
        have hxs : x.size ≤ n ∧ x.size ≤ fuel := by simp [WVs.size] at hsz hf; omega
        unfold parseElems
        cases xs with
        | nil =>
          have := ihv x hxs.1 hok.1 fuel (' ' :: ']' :: rest) k hxs.2 (noNum_space _)
          simp only [renderElems]
          rw [this]
          simp [skipWs, toJs]
        | cons y ys =>
          have hv := ihv x hxs.1 hok.1 fuel (',' :: ' ' :: (renderElems showI (.cons y ys) ++ ' ' :: ']' :: rest)) k hxs.2 (noNum_comma _)
          have hsz' : (WVs.cons y ys).size ≤ n ∧ (WVs.cons y ys).size ≤ fuel := by simp [WVs.size] at hsz hf ⊢; omega
          have hrec := ihs y ys hsz'.1 hok.2 fuel rest 1 hsz'.2
          have hshape : renderElems showI (.cons x (.cons y ys)) ++ ' ' :: ']' :: rest =
              renderValue showI x ++ (',' :: ' ' :: (renderElems showI (.cons y ys) ++ ' ' :: ']' :: rest)) := by
            simp [renderElems]
          rw [hshape, hv]
          simp only [skipWs_cons_nonws ',' _ (by decide)]
          have : (' ' :: (renderElems showI (.cons y ys) ++ ' ' :: ']' :: rest)) = List.replicate 1 ' ' ++ (renderElems showI (.cons y ys) ++ ' ' :: ']' :: rest) := by simp
          rw [this, hrec]
          simp [toJs]

/-- **C17 (values).** `value_to_json` of any data value, followed by anything that does not continue a number, is
read back as one JSON value of the same type and content. -/
theorem value_json_roundtrip (showI : Int → Str) (hI : ∀ n, NumLit (showI n)) (v : WV) (hv : okV v)
    (rest : Str) (hr : NoNumStart rest) :
    parseValue v.size (renderValue showI v ++ rest) = some (toJ showI v, rest) := by
  have := (roundtrip showI hI v.size).1 v (Nat.le_refl _) hv v.size rest 0 (Nat.le_refl _) hr
  simpa using this

/-! ## IRIs -/

theorem intoIri_clean (s p : Str) (hp : p.any invalidInIri = false) :
    (intoIri s p).any invalidInIri = false := by
  unfold intoIri
  split
  · rename_i h
    unfold isIri at h
    split at h
    · cases h
    · simp only [Bool.and_eq_true, Bool.not_eq_eq_eq_not, Bool.not_true] at h
      exact h.1
  · have hclean : (s.map (fun c => if invalidInIri c then '-' else c)).any invalidInIri = false := by
      rw [List.any_eq_false]
      intro c hc
      rw [List.mem_map] at hc
      obtain ⟨d, _, rfl⟩ := hc
      by_cases hd : invalidInIri d
      · simp [hd]; decide
      · simp [hd]
    have hp' : (if p.isEmpty then ['_', ':'] else p).any invalidInIri = false := by
      split
      · decide
      · exact hp
    simp only []
    generalize (if p.isEmpty = true then ['_', ':'] else p) = q at hp' ⊢
    have hsl : invalidInIri '/' = false := by decide
    split <;> simp [List.any_append, hp', hclean, hsl]

/-! ## the document -/

open Stam.WD in
/-- the flag-driven assembly writes exactly the specified JSON object -/
theorem export_is_the_specified_document (showI : Int → Str) (c : Cfg) (annIri : Option Str) (data : List Datum) (sel : Sel)
    (h : TopOk sel) : assemble showI c annIri data sel = specDoc showI c annIri data sel := by
  have hdt : isDataTarget sel = false := by cases sel <;> simp_all [isDataTarget, TopOk]
  have hinit : LoopInv (prefixToks c annIri) [] [] false false false false { annOut := prefixToks c annIri, bodyOut := [] } :=
    ⟨by simp [sepBy], rfl, by simp [sepBy], rfl, rfl, rfl, rfl⟩
  have hl := loop_inv showI c (prefixToks c annIri) data [] [] false false false false _ hinit
  have hf := finish_spec c annIri sel h _ _ _ _ _ _ _ _ hl
  unfold assemble
  simp only [hdt, Bool.false_eq_true, ↓reduceIte]
  rw [hf, prefix_eq]
  unfold specDoc
  have hne : [(kTarget, targetSpec c.hasTemplate sel)] ≠ [] := by simp
  simp only [objT_append_ne _ _ hne, List.nil_append, Bool.false_or]
  simp only [List.map_append, withCommas_append, List.append_assoc]
  by_cases hb : bodyMembers showI c data = []
  · simp [hb, sepBy, withCommas, memToks]
  · have hb' : (bodyMembers showI c data).isEmpty = false := by simpa [List.isEmpty_iff] using hb
    simp [hb', sepBy, withCommas, memToks]

open Stam.WD in
/-- the specified document is well-formed JSON -/
theorem specDoc_wellformed (showI : Int → Str) (c : Cfg) (annIri : Option Str) (data : List Datum) (sel : Sel)
    (h : TopOk sel) : WF (specDoc showI c annIri data sel) := by
  unfold specDoc
  refine WF.obj _ ?_
  intro m hm
  simp only [List.mem_append, List.mem_cons, List.not_mem_nil, or_false] at hm
  rcases hm with (((((hm | hm) | hm) | hm) | hm) | hm) | hm
  · rcases hm with rfl | hm
    · exact ctxSpec_wf c
    · exact idMem_wf c annIri [] m hm
  · subst hm; exact WF.str _
  · unfold mainMembers at hm
    rcases List.mem_map.mp hm with ⟨d, _, rfl⟩
    exact predMember_wf showI c _ _
  · split at hm
    · simp at hm; subst hm; exact WF.str _
    · simp at hm
  · split at hm
    · simp only [List.mem_cons, List.not_mem_nil, or_false] at hm
      subst hm
      refine WF.obj _ ?_
      intro k hk
      simp only [List.mem_cons, List.not_mem_nil, or_false] at hk
      rcases hk with rfl | rfl | rfl <;> exact WF.str _
    · simp at hm
  · split at hm
    · simp at hm
    · simp only [List.mem_cons, List.not_mem_nil, or_false] at hm
      subst hm
      refine WF.obj _ ?_
      intro k hk
      simp only [List.mem_append] at hk
      rcases hk with (hk | hk) | hk
      · split at hk
        · simp at hk
        · simp at hk; subst hk; exact WF.str _
      · split at hk
        · simp at hk
        · exact idMem_wf c annIri _ k hk
      · unfold bodyMembers at hk
        rcases List.mem_map.mp hk with ⟨d, _, rfl⟩
        exact predMember_wf showI c _ _
  · subst hm; exact targetSpec_wf c.hasTemplate sel h

open Stam.WD in
/-- every export of an accepted annotation is well-formed JSON: no comma missing, doubled or trailing -/
theorem export_wellformed (showI : Int → Str) (c : Cfg) (annIri : Option Str) (data : List Datum) (sel : Sel)
    (h : TopOk sel) : WF (assemble showI c annIri data sel) := by
  rw [export_is_the_specified_document showI c annIri data sel h]
  exact specDoc_wellformed showI c annIri data sel h

open Stam.WD in
/-- an annotation on a key or on a data item is not exported -/
theorem not_accepted_is_empty (showI : Int → Str) (c : Cfg) (annIri : Option Str) (data : List Datum) :
    assemble showI c annIri data .skip = [] := by
  simp [assemble, isDataTarget]

/-! ## non-vacuity -/

open Stam.WD in
example : TopOk (.complex 0 [.text ['r'] 0 3 ['t'], .skip, .ranged [.text ['r'] 4 5 ['u']], .complex 2 []]) := trivial

open Stam.WD in
/-- `generated` first among the annotation-level properties, then a body item: the commas are where JSON wants them -/
example : assemble (fun _ => ['7']) ⟨[], [], false, false, false, false⟩ none
    [⟨true, kGenerated, [], .str ['x']⟩, ⟨true, kCreator, [], .int 7⟩, ⟨false, ['k'], ['s', '/', 'k'], .list (.cons .null .nil)⟩]
    (.res ['r'])
  = [.lb, .str kContext, .colon, .str vContextAnno, .comma, .str kType, .colon, .str vAnnotation, .comma,
     .str kGenerated, .colon, .str ['x'], .comma, .str kCreator, .colon, .raw ['7'], .comma,
     .str kBody, .colon, .lb, .str kType, .colon, .str vDataset, .comma, .str ['s', '/', 'k'], .colon, .lk, .raw vNull, .rk, .rb, .comma,
     .str kTarget, .colon, .lb, .str kId, .colon, .str ['r'], .comma, .str kType, .colon, .str vText, .rb, .rb] := by
  decide

example : parseString (jsonStr ['a', '"', '\\', '\n', '\x01', 'é'] ++ [',', ' ']) = some (['a', '"', '\\', '\n', '\x01', 'é'], [',', ' ']) := by
  decide

example : renderValue (fun _ => ['7']) (.list (.cons (.int 7) (.cons (.str ['x', '"']) (.cons (.list .nil) .nil)))) =
    "[ 7, \"x\\\"\", [  ] ]".toList := by decide

example : NumLit ['-', '4', '2'] := ⟨by decide, by decide⟩

end Stam.WA.C17
