import StamModel.Lemmas.StamqlQ3
/-
  C09 — totality of the modelled parser: for EVERY input text, `Constraint::parse` (the modelled keywords) and
  `Query::parse` (SELECT queries) answer a result or a syntax error, never a panic.

  The panic sites in the model are the `expect`/`unreachable!` of `parse_dataoperator` (Props/C09.lean:
  `parseOp_never_panics`) and the fixed-width slices `&querystring[1..]` of `parse_subqueries` (`dropByte`: a panic
  unless the first character is one byte wide). `parseQuery_never_panics` shows that the slices are only taken at a
  `{`, `|` or `}`: every text handed from one parsing step to the next has its leading white space removed.
-/
namespace Stam.QL.C09T
open Stam.QL Stam.QL.C09

/-- a result whose remainder has no leading white space, or an error — not a panic -/
def Safe {α} : Out (α × Str) → Prop
  | .ok (_, r) => trimStart r = r
  | .err _ => True
  | .panic _ => False

theorem safe_not_panic {α} (o : Out (α × Str)) (h : Safe o) : o.isPanic = false := by
  cases o with
  | ok a => rfl
  | err c => rfl
  | panic m => exact absurd h (by simp [Safe])

/-! ### `get_arg` -/

theorem getArgAux_facts (isDt : Str → Bool) (all : Str) (rest : Str) (i : Nat) (q e : Bool) (b : Nat) (a r : Str) (ty : ArgType)
    (h : getArgAux isDt all rest i q e b = some (a, r, ty)) : trimStart r = r ∧ ∃ quoted, ty = argType isDt a quoted := by
  fun_induction getArgAux isDt all rest i q e b with
  | case1 => simp at h
  | case2 =>
    simp only [Option.some.injEq, Prod.mk.injEq] at h
    obtain ⟨rfl, rfl, rfl⟩ := h
    exact ⟨trimStart_idem _, _, rfl⟩
  | case3 =>
    simp only [Option.some.injEq, Prod.mk.injEq] at h
    obtain ⟨rfl, rfl, rfl⟩ := h
    exact ⟨trimStart_idem _, _, rfl⟩
  | case4 =>
    simp only [Option.some.injEq, Prod.mk.injEq] at h
    obtain ⟨rfl, rfl, rfl⟩ := h
    exact ⟨trimStart_idem _, _, rfl⟩
  | case5 _ _ _ _ _ _ _ _ _ _ _ _ ih => exact ih h

theorem arg_facts (isDt : Str → Bool) (s a r : Str) (ty : ArgType) (h : arg isDt s = .ok (a, r, ty)) :
    trimStart r = r ∧ ∃ quoted, ty = argType isDt a quoted := by
  unfold arg at h
  split at h
  · rename_i res hres
    simp only [Out.ok.injEq] at h
    subst h
    exact getArgAux_facts isDt s s 0 false false 0 a r ty hres
  · simp at h

theorem arg_not_panic (isDt : Str → Bool) (s : Str) (m : String) : arg isDt s ≠ .panic m := by
  unfold arg; split <;> simp

/-! ### the constraint layer -/

theorem finish_safe (c : Cn) (r : Str) (h : trimStart r = r) : Safe (finish c r) := by
  unfold finish
  split
  · exact trimStart_idem _
  · exact h

theorem opValue_safe (parseI : Str → Option Int) (parseF : Str → Bool) (isDt : Str → Bool) (s : Str) (k : Op → Cn) :
    Safe (opValue parseI parseF isDt s k) := by
  unfold opValue
  split
  · rename_i opstr r1 t1 h1
    split
    · rename_i value r2 ty h2
      obtain ⟨hr2, quoted, hty⟩ := arg_facts isDt r1 value r2 ty h2
      have hnp := parseOp_never_panics parseI parseF isDt opstr value quoted
      rw [← hty] at hnp
      split
      · exact finish_safe _ _ hr2
      · trivial
      · rename_i e he; rw [he] at hnp; simp [Out.isPanic] at hnp
    · trivial
    · rename_i e he; exact absurd he (arg_not_panic isDt _ _)
  · trivial
  · rename_i e he; exact absurd he (arg_not_panic isDt _ _)

/-- qualifiers: a result whose remainder is trimmed, or an error -/
def SafeQ {β} : Out (Str × Str × β) → Prop
  | .ok (_, r, _) => trimStart r = r
  | .err _ => True
  | .panic _ => False

theorem parseQualifiers_safe (isDt : Str → Bool) (a rest : Str) (h : trimStart rest = rest) : SafeQ (parseQualifiers isDt a rest) := by
  unfold parseQualifiers
  split
  · split
    · rename_i asArg r1 t1 h1
      split
      · split
        · rename_i a2 r2 t2 h2
          split
          · split
            · rename_i a3 r3 t3 h3; exact (arg_facts isDt _ _ _ _ h3).1
            · trivial
            · rename_i e he; exact absurd he (arg_not_panic isDt _ _)
          · exact (arg_facts isDt _ _ _ _ h2).1
        · trivial
        · rename_i e he; exact absurd he (arg_not_panic isDt _ _)
      · trivial
    · trivial
    · rename_i e he; exact absurd he (arg_not_panic isDt _ _)
  · split
    · split
      · rename_i a2 r2 t2 h2; exact (arg_facts isDt _ _ _ _ h2).1
      · trivial
      · rename_i e he; exact absurd he (arg_not_panic isDt _ _)
    · exact h

theorem parseTextQualifiers_safe (isDt : Str → Bool) (a rest : Str) (h : trimStart rest = rest) : SafeQ (parseTextQualifiers isDt a rest) := by
  unfold parseTextQualifiers
  split
  · split
    · rename_i asArg r1 t1 h1
      split
      · split
        · rename_i a2 r2 t2 h2; exact (arg_facts isDt _ _ _ _ h2).1
        · trivial
        · rename_i e he; exact absurd he (arg_not_panic isDt _ _)
      · split
        · split
          · rename_i a2 r2 t2 h2; exact (arg_facts isDt _ _ _ _ h2).1
          · trivial
          · rename_i e he; exact absurd he (arg_not_panic isDt _ _)
        · trivial
    · trivial
    · rename_i e he; exact absurd he (arg_not_panic isDt _ _)
  · exact h

theorem pq_rest {β} (o : Out (Str × Str × β)) (a r : Str) (x : β) (hs : SafeQ o) (h : o = .ok (a, r, x)) : trimStart r = r := by
  subst h; exact hs

theorem pq_not_panic {β} (o : Out (Str × Str × β)) (m : String) (hs : SafeQ o) : o ≠ .panic m := by
  intro h; subst h; exact hs

/-- **C09 (no panic in `Constraint::parse`, modelled keywords).** Whatever the text, the result is a constraint with
a remainder without leading white space, or an error. -/
theorem parseCn_safe (parseI : Str → Option Int) (parseF : Str → Bool) (isDt : Str → Bool) (regexOk : Str → Bool) (s0 : Str) :
    Safe (parseCn parseI parseF isDt regexOk s0) := by
  unfold parseCn
  simp only []
  repeat' split
  all_goals first
    | trivial
    | exact opValue_safe _ _ _ _ _
    | exact absurd (by assumption) (arg_not_panic _ _ _)
    | (apply finish_safe
       first
        | exact (arg_facts _ _ _ _ _ (by assumption)).1
        | exact pq_rest _ _ _ _ (parseQualifiers_safe _ _ _ (arg_facts _ _ _ _ _ (by assumption)).1) (by assumption)
        | exact pq_rest _ _ _ _ (parseTextQualifiers_safe _ _ _ (arg_facts _ _ _ _ _ (by assumption)).1) (by assumption))
    | exact absurd (by assumption) (pq_not_panic _ _ (parseQualifiers_safe _ _ _ (arg_facts _ _ _ _ _ (by assumption)).1))
    | exact absurd (by assumption) (pq_not_panic _ _ (parseTextQualifiers_safe _ _ _ (arg_facts _ _ _ _ _ (by assumption)).1))

/-- `parse_offset`: a result whose remainder is trimmed, or an error -/
def SafeO {β} : Out (β × Str) → Prop
  | .ok (_, r) => trimStart r = r
  | .err _ => True
  | .panic _ => False

theorem cursorArg_not_panic (parseI : Str → Option Int) (parseNat : Str → Option Nat) (a : Str) (m : String) : cursorArg parseI parseNat a ≠ .panic m := by
  unfold cursorArg; split <;> split <;> simp

theorem beginCursor_not_panic (parseI : Str → Option Int) (parseNat : Str → Option Nat) (a : Str) (m : String) :
    (if a = kWHOLE ∨ a = kALL then (Out.ok (Cursor.b 0) : Out Cursor) else cursorArg parseI parseNat a) ≠ .panic m := by
  split
  · simp
  · exact cursorArg_not_panic parseI parseNat a m

theorem parseOffset_safe (parseI : Str → Option Int) (parseNat : Str → Option Nat) (isDt : Str → Bool) (s : Str) (h : trimStart s = s) :
    SafeO (parseOffset parseI parseNat isDt s) := by
  unfold parseOffset
  repeat' split
  all_goals first
    | trivial
    | exact h
    | exact (arg_facts _ _ _ _ _ (by assumption)).1
    | exact absurd (by assumption) (arg_not_panic _ _ _)
    | exact absurd (by assumption) (cursorArg_not_panic _ _ _ _)
    | exact absurd (by assumption) (beginCursor_not_panic _ _ _ _)

theorem po_rest {β} (o : Out (β × Str)) (x : β) (r : Str) (hs : SafeO o) (h : o = .ok (x, r)) : trimStart r = r := by
  subst h; exact hs

theorem po_not_panic {β} (o : Out (β × Str)) (m : String) (hs : SafeO o) : o ≠ .panic m := by
  intro h; subst h; exact hs

theorem parseCnMore_safe (parseI : Str → Option Int) (parseF : Str → Bool) (isDt : Str → Bool) (parseNat : Str → Option Nat) (w s : Str)
    (o : Out (Cn × Str)) (h : parseCnMore parseI parseF isDt parseNat w s = some o) : Safe o := by
  unfold parseCnMore at h
  repeat' split at h
  all_goals first
    | (simp at h; done)
    | (simp only [Option.some.injEq] at h; subst h; trivial)
    | (simp only [Option.some.injEq] at h; subst h
       first
        | exact absurd (by assumption) (arg_not_panic _ _ _)
        | exact absurd (by assumption) (pq_not_panic _ _ (parseQualifiers_safe _ _ _ (arg_facts _ _ _ _ _ (by assumption)).1))
        | exact absurd (by assumption) (po_not_panic _ _ (parseOffset_safe _ _ _ _ (pq_rest _ _ _ _ (parseQualifiers_safe _ _ _ (arg_facts _ _ _ _ _ (by assumption)).1) (by assumption))))
        | (apply finish_safe
           first
            | exact (arg_facts _ _ _ _ _ (by assumption)).1
            | exact pq_rest _ _ _ _ (parseQualifiers_safe _ _ _ (arg_facts _ _ _ _ _ (by assumption)).1) (by assumption)
            | exact po_rest _ _ _ (parseOffset_safe _ _ _ _ (pq_rest _ _ _ _ (parseQualifiers_safe _ _ _ (arg_facts _ _ _ _ _ (by assumption)).1) (by assumption))) (by assumption))
        | (rename_i opstr _ _ _ _ _ value r2 ty hval _ e he
           obtain ⟨_, quoted, hty⟩ := arg_facts _ _ _ _ _ hval
           have hnp := parseOp_never_panics parseI parseF isDt opstr value quoted
           rw [← hty, he] at hnp
           simp [Out.isPanic] at hnp))

/-- **C09 (no panic in `Constraint::parse`, all modelled keywords).** -/
theorem parseCnAll_safe (parseI : Str → Option Int) (parseF : Str → Bool) (isDt : Str → Bool) (regexOk : Str → Bool) (parseNat : Str → Option Nat)
    (s0 : Str) : Safe (parseCnAll parseI parseF isDt regexOk parseNat s0) := by
  unfold parseCnAll
  simp only []
  split
  · trivial
  · split
    · rename_i o ho; exact parseCnMore_safe parseI parseF isDt parseNat _ _ o ho
    · exact parseCn_safe parseI parseF isDt regexOk s0

/-! ### the query layer -/

theorem split_trimStart (l : Str) : ∃ w, l = w ++ trimStart l ∧ ∀ c ∈ w, isWs c = true := by
  induction l with
  | nil => exact ⟨[], rfl, by simp⟩
  | cons c cs ih =>
    by_cases hc : isWs c = true
    · obtain ⟨w, hw, hws⟩ := ih
      refine ⟨c :: w, ?_, ?_⟩
      · simp only [trimStart, hc, ↓reduceIte, List.cons_append]; rw [← hw]
      · intro x hx; rcases List.mem_cons.mp hx with rfl | hx
        · exact hc
        · exact hws x hx
    · exact ⟨[], by simp [trimStart, hc], by simp⟩

/-- `trim_end` takes white space off the end: what it leaves is a prefix -/
theorem trimEnd_prefix (x : Str) : ∃ w, x = trimEnd x ++ w := by
  obtain ⟨w, hw, _⟩ := split_trimStart x.reverse
  refine ⟨w.reverse, ?_⟩
  unfold trimEnd
  have := congrArg List.reverse hw
  simpa using this

theorem trimEnd_trimmed (x : Str) (h : trimStart x = x) : trimStart (trimEnd x) = trimEnd x := by
  obtain ⟨w, hw⟩ := trimEnd_prefix x
  cases ht : trimEnd x with
  | nil => rfl
  | cons c r =>
    rw [ht] at hw
    have hc : isWs c = false := by
      have : trimStart x = c :: (r ++ w) := by rw [h, hw]; rfl
      exact trimStart_head_nonws x c _ this
    exact trimStart_cons_nonws c r hc

theorem trim_trimmed (s : Str) : trimStart (trim s) = trim s := by
  unfold trim
  exact trimEnd_trimmed _ (trimStart_idem s)

theorem head_of_trimmed (q : Str) (c : Char) (h : trimStart q = q) (hh : (trimStart q).head? = some c) : q.head? = some c := by
  rw [h] at hh; exact hh

theorem parseName_trimmed (q : Str) (h : trimStart q = q) : trimStart (parseName q).2 = (parseName q).2 := by
  unfold parseName
  split
  · exact trimStart_idem _
  · exact h

theorem parseHead_trimmed (q0 : Str) (o : Bool) (ty : RType) (n : Option Str) (q : Str) (h : parseHead q0 = some (o, ty, n, q)) :
    trimStart q = q := by
  unfold parseHead at h
  split at h
  rename_i optional q1 hopt
  split at h
  · simp at h
  · rename_i ty' name r htn
    simp only [Option.some.injEq, Prod.mk.injEq] at h
    obtain ⟨_, _, _, rfl⟩ := h
    unfold parseTypeName at htn
    split at htn
    · simp at htn
    · rename_i ty'' hty
      split at htn
      rename_i name' r' hpn
      simp only [Option.some.injEq, Prod.mk.injEq] at htn
      obtain ⟨_, _, rfl⟩ := htn
      have := parseName_trimmed (trimStart (q1.drop ty''.upper.length)) (trimStart_idem _)
      rw [hpn] at this
      exact this

theorem whereStep_trimmed (q q' : Str) (h : whereStep q = some q') (hq : trimStart q = q) : trimStart q' = q' := by
  unfold whereStep at h
  simp only [] at h
  split at h
  · simp only [Option.some.injEq] at h; subst h; exact trimStart_idem _
  · split at h
    · simp only [Option.some.injEq] at h; subst h; exact hq
    · simp at h

theorem cnLoop_safe (E : Ext) : ∀ (f : Nat) (q : Str) (acc : List Cn), trimStart q = q → Safe (cnLoop E f q acc) := by
  intro f
  induction f with
  | zero => intro q acc _; unfold cnLoop; trivial
  | succ f ih =>
    intro q acc hq
    unfold cnLoop
    split
    · exact hq
    · have hs := parseCnAll_safe E.parseI E.parseF E.isDt E.regexOk E.parseNat q
      split
      · rename_i c r hc
        unfold Ext.cn at hc
        rw [hc] at hs
        exact ih r _ hs
      · trivial
      · rename_i m hc
        unfold Ext.cn at hc
        rw [hc] at hs
        exact hs

theorem dropByte_of_head (q : Str) (c : Char) (h : q.head? = some c) (hc : c.toNat < 128) : ∃ r, q = c :: r ∧ dropByte q = .ok r := by
  cases q with
  | nil => simp at h
  | cons d r => simp at h; subst h; exact ⟨r, rfl, dropByte_ascii d r hc⟩

theorem select_sub_safe (E : Ext) : ∀ f : Nat,
    (∀ q0 : Str, Safe (parseSelect E f q0)) ∧
    (∀ (q : Str) (acc : List Q), (q.head? = some '{' ∨ q.head? = some '|') → Safe (subLoop E f q acc)) := by
  intro f
  induction f with
  | zero => exact ⟨fun _ => by unfold parseSelect; trivial, fun _ _ _ => by unfold subLoop; trivial⟩
  | succ f ih =>
    obtain ⟨ihS, ihL⟩ := ih
    constructor
    · intro q0
      unfold parseSelect
      split
      · trivial
      · rename_i o ty n q hh
        have hq := parseHead_trimmed q0 o ty n q hh
        split
        · trivial
        · rename_i q' hw
          have hq' := whereStep_trimmed q q' hw hq
          have hl := cnLoop_safe E (q'.length + 1) q' [] hq'
          split
          · rename_i cs q2 hc
            rw [hc] at hl
            have hq2 : trimStart q2 = q2 := hl
            split
            · rename_i hb
              have hsl := ihL (trimStart q2) [] (Or.inl hb)
              split
              · rename_i subs r hs; rw [hs] at hsl; exact hsl
              · trivial
              · rename_i m hs; rw [hs] at hsl; exact hsl
            · exact hq2
          · trivial
          · rename_i m hc; rw [hc] at hl; exact hl
    · intro q acc hhd
      unfold subLoop
      obtain ⟨r, hqr, hdb⟩ : ∃ r, q = (if q.head? = some '{' then '{' else '|') :: r ∧ dropByte q = .ok r := by
        rcases hhd with h | h
        · simp only [h, ↓reduceIte]; exact dropByte_of_head q '{' h (by decide)
        · have : ¬ (some '|' = some '{') := by decide
          simp only [h, this, ↓reduceIte]; exact dropByte_of_head q '|' h (by decide)
      simp only [hdb]
      split
      · trivial
      · -- the step
        have hq1 : trimStart (trim (trimStart r)) = trim (trimStart r) := trim_trimmed _
        split
        · rename_i acc' q2 hstep
          have hq2 : trimStart q2 = q2 := by
            split at hstep
            · have hs := ihS (trim (trimStart r))
              split at hstep
              · rename_i sub r' hps
                simp only [Out.ok.injEq, Prod.mk.injEq] at hstep
                obtain ⟨_, rfl⟩ := hstep
                exact trimStart_idem _
              · simp at hstep
              · simp at hstep
            · simp only [Out.ok.injEq, Prod.mk.injEq] at hstep
              obtain ⟨_, rfl⟩ := hstep
              exact hq1
          split
          · rename_i hb
            have hhead := head_of_trimmed q2 '}' hq2 hb
            obtain ⟨r2, _, hdb2⟩ := dropByte_of_head q2 '}' hhead (by decide)
            simp only [hdb2]
            exact trimStart_idem _
          · rename_i hb
            exact ihL q2 acc' (Or.inr (head_of_trimmed q2 '|' hq2 hb))
          · trivial
        · trivial
        · rename_i m hstep
          split at hstep
          · have hs := ihS (trim (trimStart r))
            split at hstep
            · simp at hstep
            · simp at hstep
            · rename_i m' hps; rw [hps] at hs; exact hs
          · simp at hstep

/-- **C09 (no panic in `Query::parse`, SELECT queries).** For every text the modelled parser answers a query or an
error: neither the operator table nor the byte-width slices of `parse_subqueries` can panic. -/
theorem parseQuery_never_panics (E : Ext) (s : Str) : (parseQuery E s).isPanic = false := by
  unfold parseQuery
  simp only []
  split
  · rfl
  · split
    · exact safe_not_panic _ ((select_sub_safe E _).1 _)
    · split <;> rfl

/-- the same for a constraint on its own -/
theorem parseCn_never_panics (parseI : Str → Option Int) (parseF : Str → Bool) (isDt : Str → Bool) (regexOk : Str → Bool) (s : Str) :
    (parseCn parseI parseF isDt regexOk s).isPanic = false :=
  safe_not_panic _ (parseCn_safe parseI parseF isDt regexOk s)

/-- the panic site is real: the slice taken at a wider character panics in the model as in the code -/
example : (dropByte ['\u3000', '{']).isPanic = true := by decide

end Stam.QL.C09T
