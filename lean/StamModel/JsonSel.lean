import StamModel.CsvRow
/-
  C05 — the STAM JSON of an annotation's target (src/selector.rs: `Serialize for WrappedSelector` / `WrappedSelectors`,
  `Serialize for Offset`, the serde derives of `Cursor`; reading through `SelectorJson` into `SelectorBuilder`).

  The target is the abstract target of CsvRow.lean (public identifiers and cursors; range-compressed runs expanded —
  `WrappedSelectors` expands them when it writes the `selectors` array). JSON is a tree (`J`); a JSON object is read
  field by field, unknown fields ignored, the `@type` member deciding the variant — as serde's internally tagged enums do.
-/
namespace Stam.JS
open Stam Stam.Csv

inductive J where
  | null
  | str (s : S)
  | num (z : Int)
  | lit (l : S)            -- a number that is not an integer, as its literal
  | bool (b : Bool)
  | arr (l : List J)
  | obj (ms : List (S × J))

def kType : S := "@type".toList
def kValue : S := "value".toList
def kBegin : S := "begin".toList
def kEnd : S := "end".toList
def kOffset : S := "offset".toList
def kResource : S := "resource".toList
def kAnnotation : S := "annotation".toList
def kSet : S := "annotationset".toList
def kKey : S := "key".toList
def kData : S := "data".toList
def kSelectors : S := "selectors".toList

def cursorJ : Cursor → J
  | .b n => .obj [(kType, .str "BeginAlignedCursor".toList), (kValue, .num n)]
  | .e z => .obj [(kType, .str "EndAlignedCursor".toList), (kValue, .num z)]

def offsetJ (b e : Cursor) : J := .obj [(kType, .str "Offset".toList), (kBegin, cursorJ b), (kEnd, cursorJ e)]

/-- `Serialize for WrappedSelector`, simple selectors -/
def subJ : Sub → J
  | .text r b e => .obj [(kType, .str (kindStr .text)), (kResource, .str r), (kOffset, offsetJ b e)]
  | .ann a none => .obj [(kType, .str (kindStr .ann)), (kAnnotation, .str a)]
  | .ann a (some (b, e)) => .obj [(kType, .str (kindStr .ann)), (kAnnotation, .str a), (kOffset, offsetJ b e)]
  | .res r => .obj [(kType, .str (kindStr .res)), (kResource, .str r)]
  | .set d => .obj [(kType, .str (kindStr .set)), (kSet, .str d)]
  | .key d k => .obj [(kType, .str (kindStr .key)), (kSet, .str d), (kKey, .str k)]
  | .data d x => .obj [(kType, .str (kindStr .data)), (kSet, .str d), (kData, .str x)]

def targetJ : Target → J
  | .simple s => subJ s
  | .complex k subs => .obj [(kType, .str (kindStr k)), (kSelectors, .arr (subs.map subJ))]

/-! ## reading -/

def field (ms : List (S × J)) (k : S) : Option J := (ms.find? (fun m => m.1 == k)).map (·.2)

def strField (ms : List (S × J)) (k : S) : Out S :=
  match field ms k with
  | some (.str s) => .ok s
  | _ => .err "JsonError"

/-- `Cursor` (adjacently tagged: `@type` + `value`) -/
def readCursor : J → Out Cursor
  | .obj ms =>
    match field ms kType, field ms kValue with
    | some (.str t), some (.num z) =>
      if t = "BeginAlignedCursor".toList then (if z < 0 then .err "JsonError" else .ok (.b z.toNat))
      else if t = "EndAlignedCursor".toList then .ok (.e z)
      else .err "JsonError"
    | _, _ => .err "JsonError"
  | _ => .err "JsonError"

/-- `Offset` (a struct with `begin` and `end`; its own `@type` member is not looked at) -/
def readOffset : J → Out (Cursor × Cursor)
  | .obj ms =>
    match field ms kBegin, field ms kEnd with
    | some b, some e => (readCursor b).bind fun b => (readCursor e).bind fun e => .ok (b, e)
    | _, _ => .err "JsonError"
  | _ => .err "JsonError"

/-- a simple selector through `SelectorJson` -/
def readSub : J → Out Sub
  | .obj ms =>
    (strField ms kType).bind fun t =>
    match parseKind t with
    | some .text =>
      (strField ms kResource).bind fun r =>
      match field ms kOffset with
      | some o => (readOffset o).bind fun (b, e) => .ok (.text r b e)
      | none => .err "JsonError"
    | some .ann =>
      (strField ms kAnnotation).bind fun a =>
      match field ms kOffset with
      | none | some .null => .ok (.ann a none)
      | some o => (readOffset o).bind fun (b, e) => .ok (.ann a (some (b, e)))
    | some .res => (strField ms kResource).bind fun r => .ok (.res r)
    | some .set => (strField ms kSet).bind fun d => .ok (.set d)
    | some .key => (strField ms kSet).bind fun d => (strField ms kKey).bind fun k => .ok (.key d k)
    | some .data => (strField ms kSet).bind fun d => (strField ms kData).bind fun x => .ok (.data d x)
    | some _ => .err "nested"          -- a complex selector inside a complex selector: read by the library, refused later; not modelled
    | none => .err "JsonError"
  | _ => .err "JsonError"

def readSubsJ : List J → Out (List Sub)
  | [] => .ok []
  | j :: js => (readSub j).bind fun s => (readSubsJ js).bind fun r => .ok (s :: r)

def readTargetJ : J → Out Target
  | .obj ms =>
    (strField ms kType).bind fun t =>
    match parseKind t with
    | some k =>
      if k.isComplex then
        match field ms kSelectors with
        | some (.arr l) => (readSubsJ l).bind fun subs => .ok (.complex k subs)
        | _ => .err "JsonError"
      else (readSub (.obj ms)).bind fun s => .ok (.simple s)
    | none => .err "JsonError"
  | _ => .err "JsonError"

/-! ## data values (`DataValue`: adjacently tagged, `@type` + `value`) -/

/-- a data value as far as its JSON form goes: floats and datetimes keep their literal -/
inductive DVJ where
  | null | bool (b : Bool) | int (z : Int) | flt (l : S) | str (s : S) | dt (l : S)
  | list (xs : List DVJ)

def tagged (t : String) (v : J) : J := .obj [(kType, .str t.toList), (kValue, v)]

mutual
/-- `Serialize for DataValue` -/
def valueJ : DVJ → J
  | .null => .obj [(kType, .str "Null".toList)]
  | .bool b => tagged "Bool" (.bool b)
  | .int z => tagged "Int" (.num z)
  | .flt l => tagged "Float" (.lit l)
  | .str s => tagged "String" (.str s)
  | .dt l => tagged "Datetime" (.str l)
  | .list xs => tagged "List" (.arr (valuesJ xs))
def valuesJ : List DVJ → List J
  | [] => []
  | x :: xs => valueJ x :: valuesJ xs
end

-- `isDt` stands for chrono's RFC 3339 parser accepting the literal, `showF` for how an integer JSON number reads as a
-- float; `fuel` bounds the nesting depth (lists in lists)
mutual
def readValue (isDt : S → Bool) (showF : Int → S) : Nat → J → Out DVJ
  | 0, _ => .err "too-deep"
  | fuel + 1, .obj ms =>
    match field ms kType with
    | some (.str t) =>
      if t = "Null".toList then .ok .null
      else match field ms kValue with
        | none => .err "JsonError"
        | some v =>
          if t = "Bool".toList then (match v with | .bool b => .ok (.bool b) | _ => .err "JsonError")
          else if t = "Int".toList then (match v with | .num z => .ok (.int z) | _ => .err "JsonError")
          else if t = "Float".toList then (match v with | .lit l => .ok (.flt l) | .num z => .ok (.flt (showF z)) | _ => .err "JsonError")
          else if t = "String".toList then (match v with | .str s => .ok (.str s) | _ => .err "JsonError")
          else if t = "Datetime".toList then (match v with | .str s => if isDt s then .ok (.dt s) else .err "JsonError" | _ => .err "JsonError")
          else if t = "List".toList then (match v with | .arr l => (readValues isDt showF fuel l).bind fun xs => .ok (.list xs) | _ => .err "JsonError")
          else .err "JsonError"
    | _ => .err "JsonError"
  | _ + 1, _ => .err "JsonError"
def readValues (isDt : S → Bool) (showF : Int → S) : Nat → List J → Out (List DVJ)
  | _, [] => .ok []
  | fuel, j :: js => (readValue isDt showF fuel j).bind fun x => (readValues isDt showF fuel js).bind fun xs => .ok (x :: xs)
end

mutual
def DVJ.depth : DVJ → Nat
  | .list xs => 1 + depths xs
  | _ => 1
def depths : List DVJ → Nat
  | [] => 0
  | x :: xs => max x.depth (depths xs)
end

mutual
/-- the datetime literals inside a value -/
def dtLits : DVJ → List S
  | .dt l => [l]
  | .list xs => dtLitss xs
  | _ => []
def dtLitss : List DVJ → List S
  | [] => []
  | x :: xs => dtLits x ++ dtLitss xs
end

end Stam.JS
