import StamModel.CsvRow
/-
  C05 — the STAM JSON of an annotation's target (src/selector.rs: `Serialize for WrappedSelector` / `WrappedSelectors`,
  `Serialize for Offset`, the serde derives of `Cursor`; reading through `SelectorJson` into `SelectorBuilder`).

  The target is the abstract target of CsvRow.lean (public identifiers and cursors; range-compressed runs expanded —
  `WrappedSelectors` expands them when it writes the `selectors` array). JSON is a tree (`J`); a JSON object is read
  field by field, unknown fields ignored, the `@type` member deciding the variant — as serde's internally tagged enums do.
-/
namespace Stam.JS
open Stam Stam.Csv

inductive J where
  | null
  | str (s : S)
  | num (z : Int)
  | arr (l : List J)
  | obj (ms : List (S × J))

def kType : S := "@type".toList
def kValue : S := "value".toList
def kBegin : S := "begin".toList
def kEnd : S := "end".toList
def kOffset : S := "offset".toList
def kResource : S := "resource".toList
def kAnnotation : S := "annotation".toList
def kSet : S := "annotationset".toList
def kKey : S := "key".toList
def kData : S := "data".toList
def kSelectors : S := "selectors".toList

def cursorJ : Cursor → J
  | .b n => .obj [(kType, .str "BeginAlignedCursor".toList), (kValue, .num n)]
  | .e z => .obj [(kType, .str "EndAlignedCursor".toList), (kValue, .num z)]

def offsetJ (b e : Cursor) : J := .obj [(kType, .str "Offset".toList), (kBegin, cursorJ b), (kEnd, cursorJ e)]

/-- `Serialize for WrappedSelector`, simple selectors -/
def subJ : Sub → J
  | .text r b e => .obj [(kType, .str (kindStr .text)), (kResource, .str r), (kOffset, offsetJ b e)]
  | .ann a none => .obj [(kType, .str (kindStr .ann)), (kAnnotation, .str a)]
  | .ann a (some (b, e)) => .obj [(kType, .str (kindStr .ann)), (kAnnotation, .str a), (kOffset, offsetJ b e)]
  | .res r => .obj [(kType, .str (kindStr .res)), (kResource, .str r)]
  | .set d => .obj [(kType, .str (kindStr .set)), (kSet, .str d)]
  | .key d k => .obj [(kType, .str (kindStr .key)), (kSet, .str d), (kKey, .str k)]
  | .data d x => .obj [(kType, .str (kindStr .data)), (kSet, .str d), (kData, .str x)]

def targetJ : Target → J
  | .simple s => subJ s
  | .complex k subs => .obj [(kType, .str (kindStr k)), (kSelectors, .arr (subs.map subJ))]

/-! ## reading -/

def field (ms : List (S × J)) (k : S) : Option J := (ms.find? (fun m => m.1 == k)).map (·.2)

def strField (ms : List (S × J)) (k : S) : Out S :=
  match field ms k with
  | some (.str s) => .ok s
  | _ => .err "JsonError"

/-- `Cursor` (adjacently tagged: `@type` + `value`) -/
def readCursor : J → Out Cursor
  | .obj ms =>
    match field ms kType, field ms kValue with
    | some (.str t), some (.num z) =>
      if t = "BeginAlignedCursor".toList then (if z < 0 then .err "JsonError" else .ok (.b z.toNat))
      else if t = "EndAlignedCursor".toList then .ok (.e z)
      else .err "JsonError"
    | _, _ => .err "JsonError"
  | _ => .err "JsonError"

/-- `Offset` (a struct with `begin` and `end`; its own `@type` member is not looked at) -/
def readOffset : J → Out (Cursor × Cursor)
  | .obj ms =>
    match field ms kBegin, field ms kEnd with
    | some b, some e => (readCursor b).bind fun b => (readCursor e).bind fun e => .ok (b, e)
    | _, _ => .err "JsonError"
  | _ => .err "JsonError"

/-- a simple selector through `SelectorJson` -/
def readSub : J → Out Sub
  | .obj ms =>
    (strField ms kType).bind fun t =>
    match parseKind t with
    | some .text =>
      (strField ms kResource).bind fun r =>
      match field ms kOffset with
      | some o => (readOffset o).bind fun (b, e) => .ok (.text r b e)
      | none => .err "JsonError"
    | some .ann =>
      (strField ms kAnnotation).bind fun a =>
      match field ms kOffset with
      | none | some .null => .ok (.ann a none)
      | some o => (readOffset o).bind fun (b, e) => .ok (.ann a (some (b, e)))
    | some .res => (strField ms kResource).bind fun r => .ok (.res r)
    | some .set => (strField ms kSet).bind fun d => .ok (.set d)
    | some .key => (strField ms kSet).bind fun d => (strField ms kKey).bind fun k => .ok (.key d k)
    | some .data => (strField ms kSet).bind fun d => (strField ms kData).bind fun x => .ok (.data d x)
    | some _ => .err "nested"          -- a complex selector inside a complex selector: read by the library, refused later; not modelled
    | none => .err "JsonError"
  | _ => .err "JsonError"

def readSubsJ : List J → Out (List Sub)
  | [] => .ok []
  | j :: js => (readSub j).bind fun s => (readSubsJ js).bind fun r => .ok (s :: r)

def readTargetJ : J → Out Target
  | .obj ms =>
    (strField ms kType).bind fun t =>
    match parseKind t with
    | some k =>
      if k.isComplex then
        match field ms kSelectors with
        | some (.arr l) => (readSubsJ l).bind fun subs => .ok (.complex k subs)
        | _ => .err "JsonError"
      else (readSub (.obj ms)).bind fun s => .ok (.simple s)
    | none => .err "JsonError"
  | _ => .err "JsonError"

end Stam.JS
