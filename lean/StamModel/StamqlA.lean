import StamModel.StamqlQ
/-
  C09 — ADD and DELETE queries (src/api/query.rs: `Query::parse_add`, `Query::parse_delete`, `Assignment::parse` with its
  `parse_name`, `parse_offset`, `closed`), on top of the SELECT layer (StamqlQ.lean), whose `parse_subqueries` they share.

  Modelled: `ADD ANNOTATION [?name] [WITH assignment*] [{ sub-queries }]` with the assignments ID, DATA (null, boolean,
  integer, float, string values), TARGET ?name [OFFSET …], COMPOSITE, MULTI, DIRECTIONAL; `DELETE ANNOTATION [?name]
  [{ sub-queries }]`; `Assignment::to_string` and `Query::to_string` on these queries (`printQQ`). Not modelled: `@` attributes (the model answers `.err "unmodelled"`).
-/
namespace Stam.QL

/-- the value of a DATA assignment; a float keeps its literal -/
inductive AVal where
  | null | bool (b : Bool) | int (z : Int) | float (lit : Str) | str (s : Str)
deriving Repr, DecidableEq

inductive CKind where | comp | multi | dir
deriving Repr, DecidableEq

inductive Asg where
  | id (s : Str)
  | data (set key : Str) (v : AVal)
  | target (name : Str) (off : Option (Cursor × Cursor))
  | complex (k : CKind)
deriving Repr

/-- a query of any of the three types -/
inductive QQ where
  | select (q : Q)
  | add (name : Option Str) (asgs : List Asg) (subs : List Q)
  | delete (name : Option Str) (subs : List Q)
deriving Repr

def kWITH : Str := ['W', 'I', 'T', 'H']
def kCOMPOSITE : Str := ['C', 'O', 'M', 'P', 'O', 'S', 'I', 'T', 'E']
def kMULTI : Str := ['M', 'U', 'L', 'T', 'I']
def kDIRECTIONAL : Str := ['D', 'I', 'R', 'E', 'C', 'T', 'I', 'O', 'N', 'A', 'L']
def kANNOTATIONlc : Str := ['a', 'n', 'n', 'o', 't', 'a', 't', 'i', 'o', 'n']

/-- the value of a DATA assignment from its argument and the type `get_arg` gave it -/
def asgValue (E : Ext) (value : Str) (ty : ArgType) : Out AVal :=
  match ty with
  | .bool => .ok (.bool (value = ['t', 'r', 'u', 'e']))
  | .integer => (match E.parseI value with | some z => .ok (.int z) | none => .err "syntax")
  | .float => if E.parseF value then .ok (.float value) else .err "syntax"
  | .string => .ok (.str value)
  | .null => .ok .null
  | _ => .err "syntax"

/-- `Assignment::parse`, before the closing `;` is looked at -/
def parseAsgCore (E : Ext) (q : Str) : Out (Asg × Str) :=
  let w := firstWord q
  if w = kID then
    match arg E.isDt (trimStart (q.drop 2)) with
    | .ok (a, r, _) => .ok (.id a, r)
    | .err e => .err e
    | .panic e => .panic e
  else if w = kDATA then
    match arg E.isDt (trimStart (q.drop 4)) with
    | .ok (set, r, _) =>
      match arg E.isDt r with
      | .ok (key, r2, _) =>
        if closed r2 then .ok (.data set key .null, r2)
        else match arg E.isDt r2 with
          | .ok (value, r3, ty) =>
            match asgValue E value ty with
            | .ok v => .ok (.data set key v, r3)
            | .err e => .err e
            | .panic e => .panic e
          | .err e => .err e
          | .panic e => .panic e
      | .err e => .err e
      | .panic e => .panic e
    | .err e => .err e
    | .panic e => .panic e
  else if w = kTARGET then
    match parseName (trimStart (q.drop 6)) with
    | (some name, r) =>
      match parseOffset E.parseI E.parseNat E.isDt r with
      | .ok (off, r2) => .ok (.target name off, r2)
      | .err e => .err e
      | .panic e => .panic e
    | (none, _) => .err "syntax"
  else if w = kCOMPOSITE then .ok (.complex .comp, trimStart (q.drop 9))
  else if w = kMULTI then .ok (.complex .multi, trimStart (q.drop 5))
  else if w = kDIRECTIONAL then .ok (.complex .dir, trimStart (q.drop 11))
  else .err "syntax"

/-- `Assignment::parse`: a `;` that follows is consumed -/
def parseAsg (E : Ext) (q : Str) : Out (Asg × Str) :=
  match parseAsgCore E q with
  | .ok (a, r) => (match r with | ';' :: r' => .ok (a, trimStart r') | _ => .ok (a, r))
  | .err e => .err e
  | .panic e => .panic e

/-- the `while` loop over the assignments in `parse_add` -/
def asgLoop (E : Ext) : Nat → Str → List Asg → Out (List Asg × Str)
  | 0, _, _ => .err "fuel"
  | f + 1, q, acc =>
    if q.isEmpty || (trimStart q).head? = some '{' || (trimStart q).head? = some '}' then .ok (acc, q)
    else match parseAsg E q with
      | .ok (a, r) => asgLoop E f r (acc ++ [a])
      | .err m => .err m
      | .panic m => .panic m

/-- `parse_subqueries` as `parse_add` and `parse_delete` call it -/
def subqueries (E : Ext) (q : Str) : Out (List Q × Str) :=
  if (trimStart q).head? = some '{' then subLoop E (q.length + 1) (trimStart q) [] else .ok ([], q)

/-- the result type of a mutating query: `ANNOTATION` in either case; what follows it -/
def annotationWord (q : Str) : Option Str :=
  let w := firstWord q
  if w = kANNOTATION ∨ w = kANNOTATIONlc then some (trimStart (q.drop 10)) else none

/-- `parse_add`, entered with the text at `ADD` -/
def parseAdd (E : Ext) (q0 : Str) : Out (QQ × Str) :=
  match annotationWord (trimStart (q0.drop 3)) with
  | none => .err "syntax"
  | some q1 =>
    match parseName q1 with
    | (name, q2) =>
      let w := firstWord q2
      let q3 : Option Str :=
        if w = kWITH then some (trimStart (q2.drop 4))
        else if w = ['{'] ∨ w = [] then some q2
        else none
      match q3 with
      | none => .err "syntax"
      | some q3 =>
        match asgLoop E (q3.length + 1) q3 [] with
        | .ok (asgs, q4) =>
          (match subqueries E q4 with
           | .ok (subs, r) => .ok (.add name asgs subs, r)
           | .err m => .err m
           | .panic m => .panic m)
        | .err m => .err m
        | .panic m => .panic m

/-- `parse_delete`, entered with the text at `DELETE` -/
def parseDelete (E : Ext) (q0 : Str) : Out (QQ × Str) :=
  match annotationWord (trimStart (q0.drop 6)) with
  | none => .err "syntax"
  | some q1 =>
    match parseName q1 with
    | (name, q2) =>
      match subqueries E q2 with
      | .ok (subs, r) => .ok (.delete name subs, r)
      | .err m => .err m
      | .panic m => .panic m

/-- `Query::parse` for all three query types -/
def parseQueryAll (E : Ext) (s0 : Str) : Out (QQ × Str) :=
  let s := trim s0
  if s.head? = some '@' then .err "unmodelled" else
  let w := firstWord s
  if w = kSELECT then
    match parseSelect E (s.length + 1) s with
    | .ok (q, r) => .ok (.select q, r)
    | .err m => .err m
    | .panic m => .panic m
  else if w = kADD then parseAdd E s
  else if w = kDELETE then parseDelete E s
  else .err "syntax"

/-! ## printing (`Assignment::to_string`, and `Query::to_string` for the two mutating query types) -/

def CKind.kw : CKind → Str
  | .comp => kCOMPOSITE
  | .multi => kMULTI
  | .dir => kDIRECTIONAL

/-- the value of a DATA assignment as printed after the key: nothing for null. A float is printed by the code from its
value (`{}` and `.0` when there is no period); the model, which keeps the literal, prints the literal: the two agree on
literals in that form, which are the ones the correspondence check compares. -/
def printAVal (showI : Int → Str) : AVal → Str
  | .null => []
  | .str s => ' ' :: quote s
  | .bool true => [' ', 't', 'r', 'u', 'e']
  | .bool false => [' ', 'f', 'a', 'l', 's', 'e']
  | .int z => ' ' :: showI z
  | .float l => ' ' :: l

/-- `Assignment::to_string` -/
def printAsg (showI : Int → Str) : Asg → Str
  | .id s => kID ++ ' ' :: quote s ++ [';']
  | .data set key v => kDATA ++ ' ' :: quote set ++ ' ' :: quote key ++ printAVal showI v ++ [';']
  | .target name off => kTARGET ++ ' ' :: '?' :: name ++ offStr showI off ++ [';']
  | .complex k => k.kw ++ [' ', ';']

/-- the lines of the WITH clause: a tab, the assignment, a newline -/
def asgLines (showI : Int → Str) (asgs : List Asg) : Str :=
  (asgs.map (fun a => '\t' :: printAsg showI a ++ ['\n'])).flatten

/-- the block of sub-queries after the text `s` written so far -/
def withSubs (showI : Int → Str) (s : Str) (subs : List Q) : Option Str :=
  match printSubs showI subs true with
  | some st => some (if subs.isEmpty then s else ensureNewline (s ++ ['\n', '{', '\n'] ++ st) ++ ['}'])
  | none => none

/-- `Query::to_string` for a query of any type -/
def printQQ (showI : Int → Str) : QQ → Option Str
  | .select q => printQ showI q
  | .add name asgs subs =>
    withSubs showI (kADD ++ ' ' :: kANNOTATION ++ nameText name ++
      (if asgs.isEmpty then [] else ' ' :: kWITH ++ '\n' :: asgLines showI asgs)) subs
  | .delete name subs => withSubs showI (kDELETE ++ ' ' :: kANNOTATION ++ nameText name) subs

end Stam.QL
