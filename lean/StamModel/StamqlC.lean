import StamModel.Stamql
import StamModel.Csv
/-
  C09 — the constraint layer of the STAMQL parser and printer (src/api/query.rs: `Constraint::parse` for the keywords
  ID, DATASET, SUBSTORE, TEXT and DATA with `parse_qualifiers`, `parse_text_qualifiers`, `closed`; `Constraint::to_string`
  for the same constraints), on top of the lexical layer of Stamql.lean (`getArg`, `argType`, `parseOp`, `printOp`).

  and for ANNOTATION, RESOURCE (with `parse_offset`), RELATION, VALUE, KEY and LIMIT (parsed and printed; the print-parse
  theorems of Props/C09Constraints cover the first five keywords). The `[ … OR … ]` union and `@` attributes are not
  modelled: `parseCn` answers `.err "unmodelled"` for them and the correspondence check skips such lines.
  `regexOk` stands for `Regex::new(s).is_ok()`, `parseNat` for `usize::from_str_radix(s, 10)` (through `Cursor::try_from`).
-/
namespace Stam.QL

inductive Qual where
  | normal | metadata
deriving Repr, DecidableEq

/-- the constraints of the modelled keywords, as the parser builds them -/
inductive Cn where
  | id (s : Str)
  | dataset (s : Str) (q : Qual)
  | datasetVar (v : Str) (q : Qual)
  | substore (s : Option Str)
  | substoreVar (v : Str)
  | text (s : Str) (nocase : Bool)
  | textVar (v : Str)
  | regex (s : Str)
  | dataKey (set key : Str) (q : Qual)
  | keyValue (set key : Str) (o : Op) (q : Qual)
  | dataVar (v : Str) (q : Qual)
  | keyValueVar (v : Str) (o : Op) (q : Qual)
  | annotation (s : Str) (q : Qual) (recursive : Bool) (off : Option (Cursor × Cursor))
  | annotationVar (v : Str) (q : Qual) (recursive : Bool) (off : Option (Cursor × Cursor))
  | resource (s : Str) (q : Qual) (off : Option (Cursor × Cursor))
  | resourceVar (v : Str) (q : Qual) (off : Option (Cursor × Cursor))
  | relation (v : Str) (op : Str)
  | value (o : Op) (q : Qual)
  | keyVar (v : Str) (q : Qual)
  | limit (b e : Int)
deriving Repr

def isSplit (c : Char) : Bool := c = ' ' ∨ c = '\n' ∨ c = '\r' ∨ c = '\t'

/-- `querystring.split(QUERYSPLITCHARS).next()` -/
def firstWord (s : Str) : Str := s.takeWhile (fun c => !isSplit c)

def trimEnd (s : Str) : Str := (trimStart s.reverse).reverse
def trim (s : Str) : Str := trimEnd (trimStart s)

/-- `Constraint::closed` -/
def closed (s : Str) : Bool :=
  s.isEmpty || startsWith s [';'] || startsWith s ['O', 'R', ' '] || startsWith s [']']

def kAS : Str := ['A', 'S']
def kRECURSIVE : Str := ['R', 'E', 'C', 'U', 'R', 'S', 'I', 'V', 'E']
def kTARGET : Str := ['T', 'A', 'R', 'G', 'E', 'T']
def kMETADATA : Str := ['M', 'E', 'T', 'A', 'D', 'A', 'T', 'A']
def kNOCASE : Str := ['N', 'O', 'C', 'A', 'S', 'E']
def kREGEX : Str := ['R', 'E', 'G', 'E', 'X']
def kREGEXP : Str := ['R', 'E', 'G', 'E', 'X', 'P']
def kNONE : Str := ['N', 'O', 'N', 'E']
def kID : Str := ['I', 'D']
def kDATASET : Str := ['D', 'A', 'T', 'A', 'S', 'E', 'T']
def kSUBSTORE : Str := ['S', 'U', 'B', 'S', 'T', 'O', 'R', 'E']
def kTEXT : Str := ['T', 'E', 'X', 'T']
def kDATA : Str := ['D', 'A', 'T', 'A']

def kANNOTATION : Str := ['A', 'N', 'N', 'O', 'T', 'A', 'T', 'I', 'O', 'N']
def kRESOURCE : Str := ['R', 'E', 'S', 'O', 'U', 'R', 'C', 'E']
def kRELATION : Str := ['R', 'E', 'L', 'A', 'T', 'I', 'O', 'N']
def kVALUE : Str := ['V', 'A', 'L', 'U', 'E']
def kKEY : Str := ['K', 'E', 'Y']
def kLIMIT : Str := ['L', 'I', 'M', 'I', 'T']
def kOFFSET : Str := ['O', 'F', 'F', 'S', 'E', 'T']
def kWHOLE : Str := ['W', 'H', 'O', 'L', 'E']
def kALL : Str := ['A', 'L', 'L']

/-- the operator keywords of RELATION -/
def relationOps : List Str :=
  [['E', 'Q', 'U', 'A', 'L', 'S'], ['E', 'M', 'B', 'E', 'D', 'S'], ['E', 'M', 'B', 'E', 'D', 'D', 'E', 'D'], ['O', 'V', 'E', 'R', 'L', 'A', 'P', 'S'],
   ['P', 'R', 'E', 'C', 'E', 'D', 'E', 'S'], ['S', 'U', 'C', 'C', 'E', 'E', 'D', 'S'], ['S', 'A', 'M', 'E', 'B', 'E', 'G', 'I', 'N'], ['S', 'A', 'M', 'E', 'E', 'N', 'D'],
   ['B', 'E', 'F', 'O', 'R', 'E'], ['A', 'F', 'T', 'E', 'R']]

/-- the keywords `Constraint::parse` knows and this model does not cover -/
def otherKeywords : List Str := [['[']]

def arg (isDt : Str → Bool) (s : Str) : Out (Str × Str × ArgType) :=
  match getArg isDt s with
  | some r => .ok r
  | none => .err "syntax"

/-- `parse_qualifiers`: (argument, remainder, qualifier, recursive) -/
def parseQualifiers (isDt : Str → Bool) (a rest : Str) : Out (Str × Str × Qual × Bool) :=
  if a = kAS then
    match arg isDt rest with
    | .ok (asArg, r1, _) =>
      if asArg = kTARGET ∨ asArg = kMETADATA then
        match arg isDt r1 with
        | .ok (a2, r2, _) =>
          if a2 = kRECURSIVE then
            match arg isDt r2 with
            | .ok (a3, r3, _) => .ok (a3, r3, .metadata, true)
            | .err e => .err e
            | .panic e => .panic e
          else .ok (a2, r2, .metadata, false)
        | .err e => .err e
        | .panic e => .panic e
      else .err "syntax"
    | .err e => .err e
    | .panic e => .panic e
  else if a = kRECURSIVE then
    match arg isDt rest with
    | .ok (a2, r2, _) => .ok (a2, r2, .normal, true)
    | .err e => .err e
    | .panic e => .panic e
  else .ok (a, rest, .normal, false)

/-- `parse_text_qualifiers`: (argument, remainder, case-insensitive, regular expression) -/
def parseTextQualifiers (isDt : Str → Bool) (a rest : Str) : Out (Str × Str × Bool × Bool) :=
  if a = kAS then
    match arg isDt rest with
    | .ok (asArg, r1, _) =>
      if asArg = kREGEX ∨ asArg = kREGEXP then
        match arg isDt r1 with
        | .ok (a2, r2, _) => .ok (a2, r2, false, true)
        | .err e => .err e
        | .panic e => .panic e
      else if asArg = kNOCASE then
        match arg isDt r1 with
        | .ok (a2, r2, _) => .ok (a2, r2, true, false)
        | .err e => .err e
        | .panic e => .panic e
      else .err "syntax"
    | .err e => .err e
    | .panic e => .panic e
  else .ok (a, rest, false, false)

/-- `arg.starts_with("?") && arg.len() > 1` -/
def isVar (a : Str) : Bool :=
  match a with
  | '?' :: _ :: _ => true
  | _ => false

/-- the tail shared by all keywords: a `;` that follows is consumed -/
def finish (c : Cn) (s : Str) : Out (Cn × Str) :=
  match s with
  | ';' :: r => .ok (c, trimStart r)
  | _ => .ok (c, s)

/-- the operator and its value, then the constraint -/
def opValue (parseI : Str → Option Int) (parseF : Str → Bool) (isDt : Str → Bool) (s : Str) (k : Op → Cn) : Out (Cn × Str) :=
  match arg isDt s with
  | .ok (opstr, r1, _) =>
    match arg isDt r1 with
    | .ok (value, r2, ty) =>
      match parseOp parseI parseF isDt opstr value ty with
      | .ok o => finish (k o) r2
      | .err e => .err e
      | .panic e => .panic e
    | .err e => .err e
    | .panic e => .panic e
  | .err e => .err e
  | .panic e => .panic e

/-- `Cursor::try_from(arg)` with its error turned into a syntax error: a text that begins with `-` is read as an `isize`
(end-aligned), any other as a `usize` (begin-aligned) -/
def cursorArg (parseI : Str → Option Int) (parseNat : Str → Option Nat) (a : Str) : Out Cursor :=
  match a with
  | '-' :: _ => (match parseI a with | some z => .ok (.e z) | none => .err "syntax")
  | _ => (match parseNat a with | some n => .ok (.b n) | none => .err "syntax")

/-- `Constraint::parse_offset` -/
def parseOffset (parseI : Str → Option Int) (parseNat : Str → Option Nat) (isDt : Str → Bool) (s : Str) : Out (Option (Cursor × Cursor) × Str) :=
  if !closed s && startsWith s kOFFSET then
    match arg isDt (trimStart (s.drop 6)) with
    | .ok (a, r, _) =>
      match (if a = kWHOLE ∨ a = kALL then .ok (.b 0) else cursorArg parseI parseNat a) with
      | .ok b =>
        if closed r then .ok (some (b, .e 0), r)
        else match arg isDt r with
          | .ok (a2, r2, _) =>
            match cursorArg parseI parseNat a2 with
            | .ok e => .ok (some (b, e), r2)
            | .err m => .err m
            | .panic m => .panic m
          | .err m => .err m
          | .panic m => .panic m
      | .err m => .err m
      | .panic m => .panic m
    | .err m => .err m
    | .panic m => .panic m
  else .ok (none, s)

/-- the keywords added after the first five: ANNOTATION, RESOURCE, RELATION, VALUE, KEY, LIMIT -/
def parseCnMore (parseI : Str → Option Int) (parseF : Str → Bool) (isDt : Str → Bool) (parseNat : Str → Option Nat) (w s : Str) : Option (Out (Cn × Str)) :=
  if w = kANNOTATION then some (
    match arg isDt (trimStart (s.drop 10)) with
    | .ok (a, r, _) =>
      match parseQualifiers isDt a r with
      | .ok (a, r, q, rec) =>
        match parseOffset parseI parseNat isDt r with
        | .ok (off, r) => if isVar a then finish (.annotationVar (a.drop 1) q rec off) r else finish (.annotation a q rec off) r
        | .err e => .err e
        | .panic e => .panic e
      | .err e => .err e
      | .panic e => .panic e
    | .err e => .err e
    | .panic e => .panic e)
  else if w = kRESOURCE then some (
    match arg isDt (trimStart (s.drop 8)) with
    | .ok (a, r, _) =>
      match parseQualifiers isDt a r with
      | .ok (a, r, q, _) =>
        match parseOffset parseI parseNat isDt r with
        | .ok (off, r) => if isVar a then finish (.resourceVar (a.drop 1) q off) r else finish (.resource a q off) r
        | .err e => .err e
        | .panic e => .panic e
      | .err e => .err e
      | .panic e => .panic e
    | .err e => .err e
    | .panic e => .panic e)
  else if w = kRELATION then some (
    match arg isDt (trimStart (s.drop 8)) with
    | .ok (v, r, _) =>
      if !startsWith v ['?'] then .err "syntax" else
      match arg isDt r with
      | .ok (op, r2, _) => if relationOps.contains op then finish (.relation (v.drop 1) op) r2 else .err "syntax"
      | .err e => .err e
      | .panic e => .panic e
    | .err e => .err e
    | .panic e => .panic e)
  else if w = kVALUE then some (
    match arg isDt (trimStart (s.drop 5)) with
    | .ok (a, r, _) =>
      match parseQualifiers isDt a r with
      | .ok (opstr, r, q, _) =>
        match arg isDt r with
        | .ok (value, r2, ty) =>
          match parseOp parseI parseF isDt opstr value ty with
          | .ok o => finish (.value o q) r2
          | .err e => .err e
          | .panic e => .panic e
        | .err e => .err e
        | .panic e => .panic e
      | .err e => .err e
      | .panic e => .panic e
    | .err e => .err e
    | .panic e => .panic e)
  else if w = kKEY then some (
    match arg isDt (trimStart (s.drop 3)) with
    | .ok (a, r, _) =>
      match parseQualifiers isDt a r with
      | .ok (a, r, q, _) => if isVar a then finish (.keyVar (a.drop 1) q) r else .err "syntax"
      | .err e => .err e
      | .panic e => .panic e
    | .err e => .err e
    | .panic e => .panic e)
  else if w = kLIMIT then some (
    match arg isDt (trimStart (s.drop 5)) with
    | .ok (a, r, _) =>
      match parseI a with
      | none => .err "syntax"
      | some n =>
        if closed r then finish (if n ≥ 0 then .limit 0 n else .limit n 0) r
        else match arg isDt r with
          | .ok (a2, r2, _) =>
            match parseI a2 with
            | none => .err "syntax"
            | some m => finish (.limit n m) r2
          | .err e => .err e
          | .panic e => .panic e
    | .err e => .err e
    | .panic e => .panic e)
  else none

/-- `Constraint::parse` for the modelled keywords (no attributes) -/
def parseCn (parseI : Str → Option Int) (parseF : Str → Bool) (isDt : Str → Bool) (regexOk : Str → Bool) (s0 : Str) : Out (Cn × Str) :=
  let s := trim s0
  if s.head? = some '@' then .err "unmodelled" else
  let w := firstWord s
  if w = kID then
    match arg isDt (trimStart (s.drop 2)) with
    | .ok (a, r, _) => finish (.id a) r
    | .err e => .err e
    | .panic e => .panic e
  else if w = kTEXT then
    match arg isDt (trimStart (s.drop 4)) with
    | .ok (a, r, _) =>
      match parseTextQualifiers isDt a r with
      | .ok (a, r, nocase, re) =>
        if isVar a then finish (.textVar (a.drop 1)) r
        else if re then (if regexOk a then finish (.regex a) r else .err "regex")
        else finish (.text a nocase) r
      | .err e => .err e
      | .panic e => .panic e
    | .err e => .err e
    | .panic e => .panic e
  else if w = kDATASET then
    match arg isDt (trimStart (s.drop 7)) with
    | .ok (a, r, _) =>
      match parseQualifiers isDt a r with
      | .ok (a, r, q, _) => if isVar a then finish (.datasetVar (a.drop 1) q) r else finish (.dataset a q) r
      | .err e => .err e
      | .panic e => .panic e
    | .err e => .err e
    | .panic e => .panic e
  else if w = kSUBSTORE then
    match arg isDt (trimStart (s.drop 8)) with
    | .ok (a, r, _) =>
      if isVar a then finish (.substoreVar (a.drop 1)) r
      else if a = kNONE ∨ a.isEmpty then finish (.substore none) r
      else finish (.substore (some a)) r
    | .err e => .err e
    | .panic e => .panic e
  else if w = kDATA then
    match arg isDt (trimStart (s.drop 4)) with
    | .ok (a, r, _) =>
      match parseQualifiers isDt a r with
      | .ok (a, r, q, _) =>
        if startsWith a ['?'] then
          if closed r then finish (.dataVar (a.drop 1) q) r
          else opValue parseI parseF isDt r (fun o => .keyValueVar (a.drop 1) o q)
        else
          match arg isDt r with
          | .ok (key, r2, _) =>
            if closed r2 then finish (.dataKey a key q) r2
            else opValue parseI parseF isDt r2 (fun o => .keyValue a key o q)
          | .err e => .err e
          | .panic e => .panic e
      | .err e => .err e
      | .panic e => .panic e
    | .err e => .err e
    | .panic e => .panic e
  else if otherKeywords.contains w then .err "unmodelled"
  else .err "syntax"

/-- `Constraint::parse` for all the modelled keywords -/
def parseCnAll (parseI : Str → Option Int) (parseF : Str → Bool) (isDt : Str → Bool) (regexOk : Str → Bool) (parseNat : Str → Option Nat)
    (s0 : Str) : Out (Cn × Str) :=
  let s := trim s0
  if s.head? = some '@' then .err "unmodelled" else
  match parseCnMore parseI parseF isDt parseNat (firstWord s) s with
  | some r => r
  | none => parseCn parseI parseF isDt regexOk s0

/-! ## printing -/

def qualStr : Qual → Str
  | .normal => []
  | .metadata => [' ', 'A', 'S', ' ', 'M', 'E', 'T', 'A', 'D', 'A', 'T', 'A']

def quote (s : Str) : Str := '"' :: s ++ ['"']

/-- `Display for Cursor` -/
def cursorStr (showI : Int → Str) : Cursor → Str
  | .b n => showI n
  | .e 0 => ['-', '0']
  | .e n => showI n

def offStr (showI : Int → Str) : Option (Cursor × Cursor) → Str
  | none => []
  | some (b, e) => [' '] ++ kOFFSET ++ [' '] ++ cursorStr showI b ++ [' '] ++ cursorStr showI e

/-- `Constraint::to_string` for the constraints that are not variables -/
def printCn (showI : Int → Str) : Cn → Option Str
  | .id s => some (kID ++ [' '] ++ quote s ++ [';'])
  | .dataset s q => some (kDATASET ++ qualStr q ++ [' '] ++ quote s ++ [';'])
  | .substore (some s) => some (kSUBSTORE ++ [' '] ++ quote s ++ [';'])
  | .substore none => some (kSUBSTORE ++ [' '] ++ kNONE ++ [';'])
  | .text s false => some (kTEXT ++ [' '] ++ quote s ++ [';'])
  | .text s true => some (kTEXT ++ [' ', 'A', 'S', ' '] ++ kNOCASE ++ [' '] ++ quote s ++ [';'])
  | .regex s => some (kTEXT ++ [' ', 'A', 'S', ' '] ++ kREGEX ++ [' '] ++ quote s ++ [';'])
  | .dataKey set key q => some (kDATA ++ qualStr q ++ [' '] ++ quote set ++ [' '] ++ quote key ++ [';'])
  | .keyValue set key o q =>
    (renderOp showI o).map (fun r => kDATA ++ qualStr q ++ [' '] ++ quote set ++ [' '] ++ quote key ++ [' '] ++ r ++ [';'])
  | .annotation s q rec off =>
    some (kANNOTATION ++ qualStr q ++ (if rec then [' '] ++ kRECURSIVE else [' ']) ++ [' '] ++ quote s ++ offStr showI off ++ [';'])
  | .resource s q off => some (kRESOURCE ++ qualStr q ++ [' '] ++ quote s ++ offStr showI off ++ [';'])
  | .relation v op => some (kRELATION ++ [' ', '?'] ++ v ++ [' '] ++ op ++ [';'])
  | .value o q => (renderOp showI o).map (fun r => kVALUE ++ qualStr q ++ [' '] ++ r ++ [';'])
  | .limit b e => some ([' '] ++ kLIMIT ++ [' '] ++ showI b ++ [' '] ++ showI e ++ [';'])
  | _ => none

end Stam.QL
