import StamModel.Stamql
/-
  C09 — the constraint layer of the STAMQL parser and printer (src/api/query.rs: `Constraint::parse` for the keywords
  ID, DATASET, SUBSTORE, TEXT and DATA with `parse_qualifiers`, `parse_text_qualifiers`, `closed`; `Constraint::to_string`
  for the same constraints), on top of the lexical layer of Stamql.lean (`getArg`, `argType`, `parseOp`, `printOp`).

  The other keywords (ANNOTATION, RESOURCE, RELATION, VALUE, KEY, LIMIT, the `[ … OR … ]` union, `@` attributes) are
  not modelled: `parseCn` answers `.err "unmodelled"` for them and the correspondence check does not send them.
  `regexOk` stands for `Regex::new(s).is_ok()`.
-/
namespace Stam.QL

inductive Qual where
  | normal | metadata
deriving Repr, DecidableEq

/-- the constraints of the modelled keywords, as the parser builds them -/
inductive Cn where
  | id (s : Str)
  | dataset (s : Str) (q : Qual)
  | datasetVar (v : Str) (q : Qual)
  | substore (s : Option Str)
  | substoreVar (v : Str)
  | text (s : Str) (nocase : Bool)
  | textVar (v : Str)
  | regex (s : Str)
  | dataKey (set key : Str) (q : Qual)
  | keyValue (set key : Str) (o : Op) (q : Qual)
  | dataVar (v : Str) (q : Qual)
  | keyValueVar (v : Str) (o : Op) (q : Qual)
deriving Repr

def isSplit (c : Char) : Bool := c = ' ' ∨ c = '\n' ∨ c = '\r' ∨ c = '\t'

/-- `querystring.split(QUERYSPLITCHARS).next()` -/
def firstWord (s : Str) : Str := s.takeWhile (fun c => !isSplit c)

def trimEnd (s : Str) : Str := (trimStart s.reverse).reverse
def trim (s : Str) : Str := trimEnd (trimStart s)

/-- `Constraint::closed` -/
def closed (s : Str) : Bool :=
  s.isEmpty || startsWith s [';'] || startsWith s ['O', 'R', ' '] || startsWith s [']']

def kAS : Str := ['A', 'S']
def kRECURSIVE : Str := ['R', 'E', 'C', 'U', 'R', 'S', 'I', 'V', 'E']
def kTARGET : Str := ['T', 'A', 'R', 'G', 'E', 'T']
def kMETADATA : Str := ['M', 'E', 'T', 'A', 'D', 'A', 'T', 'A']
def kNOCASE : Str := ['N', 'O', 'C', 'A', 'S', 'E']
def kREGEX : Str := ['R', 'E', 'G', 'E', 'X']
def kREGEXP : Str := ['R', 'E', 'G', 'E', 'X', 'P']
def kNONE : Str := ['N', 'O', 'N', 'E']
def kID : Str := ['I', 'D']
def kDATASET : Str := ['D', 'A', 'T', 'A', 'S', 'E', 'T']
def kSUBSTORE : Str := ['S', 'U', 'B', 'S', 'T', 'O', 'R', 'E']
def kTEXT : Str := ['T', 'E', 'X', 'T']
def kDATA : Str := ['D', 'A', 'T', 'A']

/-- the keywords `Constraint::parse` knows and this model does not cover -/
def otherKeywords : List Str :=
  ["ANNOTATION".toList, "RESOURCE".toList, "RELATION".toList, "VALUE".toList, "KEY".toList, "[".toList, "LIMIT".toList]

def arg (isDt : Str → Bool) (s : Str) : Out (Str × Str × ArgType) :=
  match getArg isDt s with
  | some r => .ok r
  | none => .err "syntax"

/-- `parse_qualifiers`: (argument, remainder, qualifier, recursive) -/
def parseQualifiers (isDt : Str → Bool) (a rest : Str) : Out (Str × Str × Qual × Bool) :=
  if a = kAS then
    match arg isDt rest with
    | .ok (asArg, r1, _) =>
      if asArg = kTARGET ∨ asArg = kMETADATA then
        match arg isDt r1 with
        | .ok (a2, r2, _) =>
          if a2 = kRECURSIVE then
            match arg isDt r2 with
            | .ok (a3, r3, _) => .ok (a3, r3, .metadata, true)
            | .err e => .err e
            | .panic e => .panic e
          else .ok (a2, r2, .metadata, false)
        | .err e => .err e
        | .panic e => .panic e
      else .err "syntax"
    | .err e => .err e
    | .panic e => .panic e
  else if a = kRECURSIVE then
    match arg isDt rest with
    | .ok (a2, r2, _) => .ok (a2, r2, .normal, true)
    | .err e => .err e
    | .panic e => .panic e
  else .ok (a, rest, .normal, false)

/-- `parse_text_qualifiers`: (argument, remainder, case-insensitive, regular expression) -/
def parseTextQualifiers (isDt : Str → Bool) (a rest : Str) : Out (Str × Str × Bool × Bool) :=
  if a = kAS then
    match arg isDt rest with
    | .ok (asArg, r1, _) =>
      if asArg = kREGEX ∨ asArg = kREGEXP then
        match arg isDt r1 with
        | .ok (a2, r2, _) => .ok (a2, r2, false, true)
        | .err e => .err e
        | .panic e => .panic e
      else if asArg = kNOCASE then
        match arg isDt r1 with
        | .ok (a2, r2, _) => .ok (a2, r2, true, false)
        | .err e => .err e
        | .panic e => .panic e
      else .err "syntax"
    | .err e => .err e
    | .panic e => .panic e
  else .ok (a, rest, false, false)

/-- `arg.starts_with("?") && arg.len() > 1` -/
def isVar (a : Str) : Bool :=
  match a with
  | '?' :: _ :: _ => true
  | _ => false

/-- the tail shared by all keywords: a `;` that follows is consumed -/
def finish (c : Cn) (s : Str) : Out (Cn × Str) :=
  match s with
  | ';' :: r => .ok (c, trimStart r)
  | _ => .ok (c, s)

/-- the operator and its value, then the constraint -/
def opValue (parseI : Str → Option Int) (parseF : Str → Bool) (isDt : Str → Bool) (s : Str) (k : Op → Cn) : Out (Cn × Str) :=
  match arg isDt s with
  | .ok (opstr, r1, _) =>
    match arg isDt r1 with
    | .ok (value, r2, ty) =>
      match parseOp parseI parseF isDt opstr value ty with
      | .ok o => finish (k o) r2
      | .err e => .err e
      | .panic e => .panic e
    | .err e => .err e
    | .panic e => .panic e
  | .err e => .err e
  | .panic e => .panic e

/-- `Constraint::parse` for the modelled keywords (no attributes) -/
def parseCn (parseI : Str → Option Int) (parseF : Str → Bool) (isDt : Str → Bool) (regexOk : Str → Bool) (s0 : Str) : Out (Cn × Str) :=
  let s := trim s0
  if s.head? = some '@' then .err "unmodelled" else
  let w := firstWord s
  if w = kID then
    match arg isDt (trimStart (s.drop 2)) with
    | .ok (a, r, _) => finish (.id a) r
    | .err e => .err e
    | .panic e => .panic e
  else if w = kTEXT then
    match arg isDt (trimStart (s.drop 4)) with
    | .ok (a, r, _) =>
      match parseTextQualifiers isDt a r with
      | .ok (a, r, nocase, re) =>
        if isVar a then finish (.textVar (a.drop 1)) r
        else if re then (if regexOk a then finish (.regex a) r else .err "regex")
        else finish (.text a nocase) r
      | .err e => .err e
      | .panic e => .panic e
    | .err e => .err e
    | .panic e => .panic e
  else if w = kDATASET then
    match arg isDt (trimStart (s.drop 7)) with
    | .ok (a, r, _) =>
      match parseQualifiers isDt a r with
      | .ok (a, r, q, _) => if isVar a then finish (.datasetVar (a.drop 1) q) r else finish (.dataset a q) r
      | .err e => .err e
      | .panic e => .panic e
    | .err e => .err e
    | .panic e => .panic e
  else if w = kSUBSTORE then
    match arg isDt (trimStart (s.drop 8)) with
    | .ok (a, r, _) =>
      if isVar a then finish (.substoreVar (a.drop 1)) r
      else if a = kNONE ∨ a.isEmpty then finish (.substore none) r
      else finish (.substore (some a)) r
    | .err e => .err e
    | .panic e => .panic e
  else if w = kDATA then
    match arg isDt (trimStart (s.drop 4)) with
    | .ok (a, r, _) =>
      match parseQualifiers isDt a r with
      | .ok (a, r, q, _) =>
        if startsWith a ['?'] then
          if closed r then finish (.dataVar (a.drop 1) q) r
          else opValue parseI parseF isDt r (fun o => .keyValueVar (a.drop 1) o q)
        else
          match arg isDt r with
          | .ok (key, r2, _) =>
            if closed r2 then finish (.dataKey a key q) r2
            else opValue parseI parseF isDt r2 (fun o => .keyValue a key o q)
          | .err e => .err e
          | .panic e => .panic e
      | .err e => .err e
      | .panic e => .panic e
    | .err e => .err e
    | .panic e => .panic e
  else if otherKeywords.contains w then .err "unmodelled"
  else .err "syntax"

/-! ## printing -/

def qualStr : Qual → Str
  | .normal => []
  | .metadata => [' ', 'A', 'S', ' ', 'M', 'E', 'T', 'A', 'D', 'A', 'T', 'A']

def quote (s : Str) : Str := '"' :: s ++ ['"']

/-- `Constraint::to_string` for the constraints that are not variables -/
def printCn (showI : Int → Str) : Cn → Option Str
  | .id s => some (kID ++ [' '] ++ quote s ++ [';'])
  | .dataset s q => some (kDATASET ++ qualStr q ++ [' '] ++ quote s ++ [';'])
  | .substore (some s) => some (kSUBSTORE ++ [' '] ++ quote s ++ [';'])
  | .substore none => some (kSUBSTORE ++ [' '] ++ kNONE ++ [';'])
  | .text s false => some (kTEXT ++ [' '] ++ quote s ++ [';'])
  | .text s true => some (kTEXT ++ [' ', 'A', 'S', ' '] ++ kNOCASE ++ [' '] ++ quote s ++ [';'])
  | .regex s => some (kTEXT ++ [' ', 'A', 'S', ' '] ++ kREGEX ++ [' '] ++ quote s ++ [';'])
  | .dataKey set key q => some (kDATA ++ qualStr q ++ [' '] ++ quote set ++ [' '] ++ quote key ++ [';'])
  | .keyValue set key o q =>
    (renderOp showI o).map (fun r => kDATA ++ qualStr q ++ [' '] ++ quote set ++ [' '] ++ quote key ++ [' '] ++ r ++ [';'])
  | _ => none

end Stam.QL
