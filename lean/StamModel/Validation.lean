import StamModel.Prelude
/-
  C18 — text validation (src/textvalidation.rs).

  Model of `AnnotationStore::protect_text`, `ResultItem<Annotation>::validate_text` and
  `AnnotationStore::validate_text`.

  * A text is a list of code points; an annotation selects text through its ordered list of absolute
    text selections `(resource, begin, end)` (what `annotation.textselections()` yields; resolving
    selectors to these is C01/C04's business, not repeated here).
  * `annText` is `text_join(delimiter)`.
  * The checksum function is a parameter `h : Text → H` (the code uses SHA-1 rendered in hexadecimal).
    Everything that says "a changed text is flagged" in checksum mode carries the explicit hypothesis
    that `h` does not collide on the two texts involved (`h a = h b → a = b`); no hash function
    satisfies it for all inputs, which is recorded in the trusted base.
-/
namespace Stam.TV

abbrev Text := List Char

structure Sel where
  res : Nat
  b : Nat
  e : Nat
deriving Repr, DecidableEq

/-- the text of one selection: `resource.text()[b..e]` in code points -/
def piece (texts : List Text) (s : Sel) : Text :=
  ((texts.getD s.res []).drop s.b).take (s.e - s.b)

/-- `text_join`: pieces separated by the delimiter -/
def join (d : Text) : List Text → Text
  | [] => []
  | [x] => x
  | x :: y :: r => x ++ d ++ join d (y :: r)

def annText (texts : List Text) (d : Text) (sels : List Sel) : Text :=
  join d (sels.map (piece texts))

/-- `textselections().fold(0, |a, x| a + (x.end() - x.begin()))` -/
def annLen (sels : List Sel) : Nat := sels.foldl (fun a s => a + (s.e - s.b)) 0

inductive Mode where
  | checksum | text | both | auto
deriving Repr, DecidableEq

/-- (do_checksum, do_text) -/
def Mode.plan (m : Mode) (len : Nat) : Bool × Bool :=
  match m with
  | .checksum => (true, false)
  | .text => (false, true)
  | .both => (true, true)
  | .auto => if len < 40 then (false, true) else (true, false)

/-- validation information carried by one annotation -/
structure Info (H : Type) where
  checksum : Option H
  text : Option Text
deriving Repr

def Info.none {H} : Info H := { checksum := Option.none, text := Option.none }

/-- `text_checksum`: `None` for an empty text -/
def checksumOf {H} (h : Text → H) (t : Text) : Option H := if t.isEmpty then Option.none else some (h t)

/-- the two queues of `protect_text` for one annotation whose current text is `t` -/
def protectWith {H} (h : Text → H) (dc dt : Bool) (t : Text) (i : Info H) : Info H :=
  { checksum := if dc && i.checksum.isNone then (match checksumOf h t with | some c => some c | Option.none => i.checksum) else i.checksum,
    text := if dt && i.text.isNone && !t.isEmpty then some t else i.text }

/-- what `protect_text` does to one annotation whose current text is `t` (total length `len`) -/
def protectOne {H} (h : Text → H) (m : Mode) (len : Nat) (t : Text) (i : Info H) : Info H :=
  protectWith h (m.plan len).1 (m.plan len).2 t i

/-- `ResultItem<Annotation>::validate_text` -/
def validateOne {H} [DecidableEq H] (h : Text → H) (i : Info H) (t : Text) : Option Bool :=
  match i.checksum with
  | some c =>
    if checksumOf h t ≠ some c then some false
    else match i.text with
      | some r => if r ≠ t then some false else some true
      | Option.none => some true
  | Option.none =>
    match i.text with
    | some r => if r ≠ t then some false else some true
    | Option.none => Option.none

/-- an annotation as text validation sees it -/
structure Ann (H : Type) where
  sels : List Sel
  delim : Option Text
  info : Info H

def Ann.text {H} (texts : List Text) (a : Ann H) : Text := annText texts (a.delim.getD []) a.sels

def protect {H} (h : Text → H) (m : Mode) (texts : List Text) (anns : List (Ann H)) : List (Ann H) :=
  anns.map (fun a => { a with info := protectOne h m (annLen a.sels) (a.text texts) a.info })

structure Result where
  valid : Nat
  invalid : Nat
  missing : Nat
deriving Repr, DecidableEq

def Result.add (r : Result) (v : Option Bool) : Result :=
  match v with
  | some true => { r with valid := r.valid + 1 }
  | some false => { r with invalid := r.invalid + 1 }
  | Option.none => { r with missing := r.missing + 1 }

def validateAll {H} [DecidableEq H] (h : Text → H) (texts : List Text) (anns : List (Ann H)) : Result :=
  anns.foldl (fun r a => r.add (validateOne h a.info (a.text texts))) ⟨0, 0, 0⟩

/-! ### the three edits of the property's quantifier -/
def substitute (t : Text) (p : Nat) (c : Char) : Text := t.set p c
def insertAt (t : Text) (p : Nat) (c : Char) : Text := t.take p ++ c :: t.drop p
def deleteAt (t : Text) (p : Nat) : Text := t.eraseIdx p

end Stam.TV
