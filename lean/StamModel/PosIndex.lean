import StamModel.Utf8
/-
  C12 — how the position index of a text resource comes about (src/resources.rs `create_milestones`, the `inserted`
  callback of text selections; src/textselection.rs `PositionIndexItem`) and what is read from it
  (`positions`, `position`, `known_textselection`).

  One ordered map from code-point positions to entries holds two things: milestones (entries without text
  selections, every `interval` code points, there to make byte conversion fast) and the positions where text
  selections begin or end. Utf8.lean reads the byte positions out of such an index and Props/C12 proves the conversions
  exact *for an index whose entries are right* (`IdxWF`); this model builds the index the way the code does, and
  Props/C12Index proves every index built that way right, and the positions read from it independent of milestones.
  A text is the list of the byte widths of its code points.
-/
namespace Stam.PI
open Stam

structure Item where
  bytepos : Nat
  e2b : List (Nat × Nat)      -- (begin, handle) of the text selections that end here
  b2e : List (Nat × Nat)      -- (end, handle) of the text selections that begin here
deriving Repr, DecidableEq

/-- the `BTreeMap`: ascending keys -/
abbrev Index := List (Nat × Item)

def lookup : Index → Nat → Option Item
  | [], _ => none
  | (k', v) :: r, k => if k' = k then some v else lookup r k

/-- `entry(k).and_modify(..).or_insert_with(..)` -/
def upsert (m : Index) (k : Nat) (f : Option Item → Item) : Index :=
  match m with
  | [] => [(k, f none)]
  | (k', v) :: r =>
    if k < k' then (k, f none) :: (k', v) :: r
    else if k = k' then (k', f (some v)) :: r
    else (k', v) :: upsert r k f

/-- the (code point, byte) pairs Utf8.lean's conversions read -/
def proj (m : Index) : List (Nat × Nat) := m.map (fun e => (e.1, e.2.bytepos))

/-- `create_milestones(interval)` (called for `interval > 0` only): an entry that is there stays as it is -/
def milestones (ws : List Nat) (interval : Nat) (m : Index) : Index :=
  (List.range ws.length).foldl (fun m c =>
    if 0 < c ∧ c % interval = 0 then upsert m c (fun o => o.getD ⟨prefixB ws c, [], []⟩) else m) m

def addB2e (e h bytepos : Nat) : Option Item → Item
  | some it => if it.b2e.contains (e, h) then it else { it with b2e := it.b2e ++ [(e, h)] }
  | none => ⟨bytepos, [], [(e, h)]⟩

def addE2b (b h bytepos : Nat) : Option Item → Item
  | some it => if it.e2b.contains (b, h) then it else { it with e2b := it.e2b ++ [(b, h)] }
  | none => ⟨bytepos, [(b, h)], []⟩

/-- the `inserted` callback of a text selection `[b, e)` with handle `h`: both byte positions are computed first, from
the index as it is -/
def insertSel (ws : List Nat) (m : Index) (b e h : Nat) : Option Index :=
  match utf8byte (proj m) ws b, utf8byte (proj m) ws e with
  | .ok bb, .ok eb => some (upsert (upsert m b (addB2e e h bb)) e (addE2b b h eb))
  | _, _ => none

inductive Mode | begin | end_ | both
deriving Repr, DecidableEq

def inUse (mode : Mode) (it : Item) : Bool :=
  match mode with
  | .begin => !it.b2e.isEmpty
  | .end_ => !it.e2b.isEmpty
  | .both => !it.b2e.isEmpty || !it.e2b.isEmpty

/-- `positions(mode)` -/
def positions (m : Index) (mode : Mode) : List Nat := (m.filter (fun e => inUse mode e.2)).map (·.1)

/-- `position(index)` -/
def position (m : Index) (k : Nat) : Option Item := (lookup m k).filter (inUse .both)

/-- `known_textselection` for resolved cursors: the handle of the first selection listed at `b` that ends at `e` -/
def known (m : Index) (b e : Nat) : Option Nat :=
  (lookup m b).bind (fun it => (it.b2e.find? (fun p => p.1 == e)).map (·.2))

/-! ### histories -/

inductive Op where
  | milestones (interval : Nat)       -- a resource (re)initialised under a configuration: `interval > 0`
  | sel (b e : Nat)                    -- a text selection is asked for (a new one gets the number of selections so far as its handle)
deriving Repr

structure St where
  idx : Index := []
  nsel : Nat := 0
deriving Repr

def step (ws : List Nat) (s : St) : Op → St
  | .milestones i => if i = 0 then s else { s with idx := milestones ws i s.idx }
  | .sel b e =>
    -- (`AnnotationStore::selector` asks `known_textselection` first: a text selection that is known is used, not inserted again)
    if b ≤ e ∧ e ≤ ws.length ∧ (known s.idx b e).isNone then
      match insertSel ws s.idx b e s.nsel with
      | some m => { idx := m, nsel := s.nsel + 1 }
      | none => s
    else s

def run (ws : List Nat) (ops : List Op) : St := ops.foldl (step ws) {}

/-! ### histories in which the text is replaced -/

/-- `with_string` on a resource: when it has a text (`check_mutation`), the position index and the text selections are
thrown away; the new text gets its milestones under the resource's own configuration (`interval`, 0 = none) -/
inductive TOp where
  | op (o : Op)
  | retext (ws' : List Nat) (interval : Nat)
deriving Repr

def stepT (p : List Nat × St) : TOp → List Nat × St
  | .op o => (p.1, step p.1 p.2 o)
  | .retext ws' i => (ws', step ws' (if p.1.isEmpty then p.2 else {}) (.milestones i))

/-- a resource with the text `ws0` and nothing on it yet, through a history -/
def runT (ws0 : List Nat) (ops : List TOp) : List Nat × St := ops.foldl stepT (ws0, {})

end Stam.PI
