import StamModel.StamqlC
/-
  C09 — the query layer of the STAMQL parser and printer (src/api/query.rs: `Query::parse`, `parse_with_attributes`,
  `parse_select`, `parse_qualifier`, `parse_name`, `parse_subqueries`; `Query::to_string`), on top of the constraint
  layer (StamqlC.lean).

  Modelled: SELECT queries — the optional OPTIONAL qualifier, the six result types (upper or lower case), the optional
  `?name`, the WHERE clause with any number of constraints, and `{ … | … }` blocks of sub-queries to any depth.
  Not modelled (the model answers `.err "unmodelled"` and the correspondence check skips the line): `@` attributes,
  ADD and DELETE queries (assignments), and whatever `parseCn` does not model.

  Texts are lists of code points. The code slices at fixed byte widths (`&querystring[1..]` in `parse_subqueries`):
  that is modelled by `dropByte`, which panics as the code would when the first character is wider than a byte.
-/
namespace Stam.QL

/-- the external functions of the lexical and constraint layers, bundled -/
structure Ext where
  parseI : Str → Option Int
  parseF : Str → Bool
  isDt : Str → Bool
  regexOk : Str → Bool
  parseNat : Str → Option Nat

def Ext.cn (E : Ext) (s : Str) : Out (Cn × Str) := parseCnAll E.parseI E.parseF E.isDt E.regexOk E.parseNat s

inductive RType where
  | annotation | data | key | text | resource | dataset
deriving DecidableEq, Repr

def RType.upper : RType → Str
  | .annotation => ['A', 'N', 'N', 'O', 'T', 'A', 'T', 'I', 'O', 'N']
  | .data => ['D', 'A', 'T', 'A']
  | .key => ['K', 'E', 'Y']
  | .text => ['T', 'E', 'X', 'T']
  | .resource => ['R', 'E', 'S', 'O', 'U', 'R', 'C', 'E']
  | .dataset => ['D', 'A', 'T', 'A', 'S', 'E', 'T']

def RType.lower : RType → Str
  | .annotation => ['a', 'n', 'n', 'o', 't', 'a', 't', 'i', 'o', 'n']
  | .data => ['d', 'a', 't', 'a']
  | .key => ['k', 'e', 'y']
  | .text => ['t', 'e', 'x', 't']
  | .resource => ['r', 'e', 's', 'o', 'u', 'r', 'c', 'e']
  | .dataset => ['d', 'a', 't', 'a', 's', 'e', 't']

def allTypes : List RType := [.annotation, .data, .key, .text, .resource, .dataset]

/-- the `match` on the first word in `parse_select` -/
def parseType (w : Str) : Option RType := allTypes.find? (fun t => t.upper = w ∨ t.lower = w)

/-- a SELECT query as the parser builds it -/
inductive Q where
  | mk (optional : Bool) (ty : RType) (name : Option Str) (cs : List Cn) (subs : List Q)
deriving Repr

def kSELECT : Str := ['S', 'E', 'L', 'E', 'C', 'T']
def kADD : Str := ['A', 'D', 'D']
def kDELETE : Str := ['D', 'E', 'L', 'E', 'T', 'E']
def kOPTIONAL : Str := ['O', 'P', 'T', 'I', 'O', 'N', 'A', 'L']
def kWHERE : Str := ['W', 'H', 'E', 'R', 'E']

/-- `s.trim_end_matches(';')` -/
def trimEndSemis (s : Str) : Str := (s.reverse.dropWhile (· = ';')).reverse

/-- `parse_name` -/
def parseName (s : Str) : Option Str × Str :=
  match s with
  | '?' :: r =>
    let name := trimEndSemis (firstWord r)
    (some name, trimStart (r.drop name.length))
  | _ => (none, s)

def stopChar (c : Char) : Bool := c = '{' ∨ c = '}' ∨ c = '|'

/-- `querystring.trim_start().chars().nth(0)` is one of `{`, `}`, `|` -/
def atStop (q : Str) : Bool :=
  match (trimStart q).head? with
  | some c => stopChar c
  | none => false

/-- the `while` loop over the constraints in `parse_select` -/
def cnLoop (E : Ext) : Nat → Str → List Cn → Out (List Cn × Str)
  | 0, _, _ => .err "fuel"
  | f + 1, q, acc =>
    if q.isEmpty || atStop q then .ok (acc, q)
    else match E.cn q with
      | .ok (c, r) => cnLoop E f r (acc ++ [c])
      | .err m => .err m
      | .panic m => .panic m

/-- `&querystring[1..]`: a panic unless the first character is one byte wide -/
def dropByte (q : Str) : Out Str :=
  match q with
  | c :: r => if c.toNat < 128 then .ok r else .panic "byte index 1 is not a char boundary"
  | [] => .panic "byte index 1 is out of bounds"

/-- `parse_qualifier` -/
def parseOptional (q : Str) : Bool × Str :=
  if firstWord q = kOPTIONAL then (true, trimStart (q.drop 8)) else (false, q)

/-- the result type and `parse_name`; what follows the name -/
def parseTypeName (q : Str) : Option (RType × Option Str × Str) :=
  match parseType (firstWord q) with
  | none => none
  | some ty =>
    match parseName (trimStart (q.drop ty.upper.length)) with
    | (name, r) => some (ty, name, r)

/-- the head of `parse_select`: `SELECT`, `parse_qualifier`, the result type, `parse_name`; what follows the name -/
def parseHead (q0 : Str) : Option (Bool × RType × Option Str × Str) :=
  match parseOptional (trimStart (q0.drop 6)) with
  | (optional, q) =>
    match parseTypeName q with
    | none => none
    | some (ty, name, r) => some (optional, ty, name, r)

/-- the `match` on the word after the name: `WHERE` is consumed, a brace, a bar or the end are left, anything else is an error -/
def whereStep (q : Str) : Option Str :=
  let w := firstWord q
  if w = kWHERE then some (trimStart (q.drop 5))
  else if w = ['{'] ∨ w = ['}'] ∨ w = ['|'] ∨ w = [] then some q
  else none

mutual
/-- `parse_select`, entered with the text at `SELECT` -/
def parseSelect (E : Ext) : Nat → Str → Out (Q × Str)
  | 0, _ => .err "fuel"
  | f + 1, q0 =>
    match parseHead q0 with
    | none => .err "syntax"
    | some (optional, ty, name, q) =>
      match whereStep q with
      | none => .err "syntax"
      | some q =>
        match cnLoop E (q.length + 1) q [] with
        | .ok (cs, q) =>
          -- `parse_subqueries`
          if (trimStart q).head? = some '{' then
            -- (white space before the brace is stripped first)
            match subLoop E f (trimStart q) [] with
            | .ok (subs, r) => .ok (.mk optional ty name cs subs, r)
            | .err m => .err m
            | .panic m => .panic m
          else .ok (.mk optional ty name cs [], q)
        | .err m => .err m
        | .panic m => .panic m
/-- the `loop` of `parse_subqueries`, entered with the text at `{` or `|` -/
def subLoop (E : Ext) : Nat → Str → List Q → Out (List Q × Str)
  | 0, _, _ => .err "fuel"
  | f + 1, q, acc =>
    match dropByte q with
    | .panic m => .panic m
    | .err m => .err m
    | .ok q1 =>
      -- `parse_attributes` trims both ends
      let q1 := trim (trimStart q1)
      if q1.head? = some '@' then .err "unmodelled" else
      let step : Out (List Q × Str) :=
        if startsWith q1 kSELECT then
          match parseSelect E f q1 with
          | .ok (sub, r) => .ok (acc ++ [sub], trimStart r)
          | .err m => .err m
          | .panic m => .panic m
        else .ok (acc, q1)
      match step with
      | .ok (acc, q2) =>
        match (trimStart q2).head? with
        | some '}' =>
          match dropByte q2 with
          | .ok r => .ok (acc, trimStart r)
          | .err m => .err m
          | .panic m => .panic m
        | some '|' => subLoop E f q2 acc
        | _ => .err "syntax"
      | .err m => .err m
      | .panic m => .panic m
end

/-- `Query::parse` -/
def parseQuery (E : Ext) (s0 : Str) : Out (Q × Str) :=
  let s := trim s0
  if s.head? = some '@' then .err "unmodelled" else
  let w := firstWord s
  if w = kSELECT then parseSelect E (s.length + 1) s
  else if w = kADD ∨ w = kDELETE then .err "unmodelled"
  else .err "syntax"

/-! ## printing -/

def optAll {α} : List (Option α) → Option (List α)
  | [] => some []
  | none :: _ => none
  | some x :: r => (optAll r).map (x :: ·)

/-- the lines of the WHERE clause: a tab, the constraint, a newline -/
def cnLines (showI : Int → Str) (cs : List Cn) : Option Str :=
  (optAll (cs.map (printCn showI))).map (fun ts => (ts.map (fun t => '\t' :: t ++ ['\n'])).flatten)

/-- the name as printed: ` ?name` or nothing -/
def nameText (name : Option Str) : Str :=
  match name with
  | some n => [' ', '?'] ++ n
  | none => []

/-- what `to_string` writes before the WHERE clause -/
def headText (optional : Bool) (ty : RType) (name : Option Str) : Str :=
  kSELECT ++ [' '] ++ (if optional then kOPTIONAL ++ [' '] else []) ++ ty.upper ++ nameText name

def ensureNewline (s : Str) : Str := if s.getLast? = some '\n' then s else s ++ ['\n']

mutual
/-- `Query::to_string` -/
def printQ (showI : Int → Str) : Q → Option Str
  | .mk optional ty name cs subs =>
    match cnLines showI cs, printSubs showI subs true with
    | some lines, some subsText =>
      let s := headText optional ty name ++ (if cs.isEmpty then [] else [' '] ++ kWHERE ++ ['\n'] ++ lines)
      some (if subs.isEmpty then s else ensureNewline (s ++ ['\n', '{', '\n'] ++ subsText) ++ ['}'])
    | _, _ => none
/-- the sub-queries between the braces: a space before each, `\n|` between them -/
def printSubs (showI : Int → Str) : List Q → Bool → Option Str
  | [], _ => some []
  | q :: r, first =>
    match printQ showI q, printSubs showI r false with
    | some t, some rt => some ((if first then [] else ['\n', '|']) ++ [' '] ++ t ++ rt)
    | _, _ => none
end

end Stam.QL
