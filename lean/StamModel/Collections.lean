import StamModel.Prelude
/-
  C08 — the helper collections of the query evaluator (src/api.rs): `Handles::union`, `Handles::intersection`
  (with their fast paths for sorted collections) and `LimitIter`.

  * a collection is the list of handles and the `sorted` flag;
  * `binary_search` on a sorted slice is modelled by what it answers: `Ok(i)` with `slice[i] = x` when `x` occurs
    (the slices searched here hold no duplicates), else `Err(i)` with `i` the number of elements below `x`
    (`lowerBound`) — std's binary search itself is trusted;
  * `LimitIter` is the step machine of `LimitIter::next`: cursor, buffer, and what has been emitted.
-/
namespace Stam.Coll

/-! ## Handles -/

structure H where
  arr : List Nat
  sorted : Bool
deriving Repr, DecidableEq

/-- `Handles::from_iter`: the flag is cleared by the first descent -/
def noDescent : List Nat → Bool
  | [] => true
  | [_] => true
  | a :: b :: r => if a > b then false else noDescent (b :: r)

def fromIter (l : List Nat) : H := ⟨l, noDescent l⟩

def lowerBound (s : List Nat) (x : Nat) : Nat := (s.takeWhile (· < x)).length

/-- `slice.binary_search(&x)`: (found, index) -/
def bsearch (s : List Nat) (x : Nat) : Bool × Nat :=
  let i := lowerBound s x
  (s[i]? == some x, i)

def insertSorted (x : Nat) : List Nat → List Nat
  | [] => [x]
  | a :: r => if x ≤ a then x :: a :: r else a :: insertSorted x r

def sortList (l : List Nat) : List Nat := l.foldr insertSorted []

/-- `Handles::add` -/
def add (h : H) (x : Nat) : H :=
  if h.sorted then
    (let (found, pos) := bsearch h.arr x
     if found then h else ⟨h.arr.take pos ++ x :: h.arr.drop pos, true⟩)
  else if h.arr.contains x then h else ⟨h.arr ++ [x], false⟩

/-- the loop of `Handles::union` in the fast path (both sorted): `orig` is the part that was there at the start,
`offset` where the previous item was found in it, `app` what has been appended so far -/
def unionFast (orig : List Nat) : (offset : Nat) → (app : List Nat) → List Nat → List Nat
  | _, app, [] => app
  | offset, app, x :: rest =>
    let (found, idx) := bsearch (orig.drop offset) x
    if found then unionFast orig (offset + idx + 1) app rest
    else
      let app' := if app.getLast? = some x then app else app ++ [x]
      unionFast orig (offset + idx) app' rest

/-- the loop in the general path: membership in the original part (binary or linear search) or in what was appended -/
def unionSlow (orig : List Nat) : (app : List Nat) → List Nat → List Nat
  | app, [] => app
  | app, x :: rest => if orig.contains x ∨ app.contains x then unionSlow orig app rest else unionSlow orig (app ++ [x]) rest

/-- `Handles::union` -/
def union (h o : H) : H :=
  match o.arr with
  | [] => h
  | [x] => add h x
  | _ =>
    let app := if h.sorted ∧ o.sorted then unionFast h.arr 0 [] o.arr else unionSlow h.arr [] o.arr
    if h.sorted ∧ ¬ app.isEmpty then ⟨sortList (h.arr ++ app), true⟩ else ⟨h.arr ++ app, h.sorted⟩

/-- the `retain` of `Handles::intersection` in the fast path: which elements of `self` are kept -/
def interFast (other : List Nat) : (offset : Nat) → List Nat → List Nat
  | _, [] => []
  | offset, x :: rest =>
    let (found, idx) := bsearch (other.drop offset) x
    if found then x :: interFast other (offset + idx + 1) rest else interFast other (offset + idx) rest

def isSubset (a b : List Nat) : Bool := a.all (fun x => b.contains x)

/-- `Handles::intersection` -/
def inter (h o : H) : H :=
  if h.arr.isEmpty ∨ o.arr.isEmpty then ⟨[], h.sorted⟩
  else if h.arr.length = o.arr.length ∧ h.sorted ∧ o.sorted ∧ h.arr = o.arr then h
  else if o.arr.length < h.arr.length ∧ h.sorted ∧ o.sorted ∧ isSubset o.arr h.arr then ⟨o.arr, h.sorted⟩
  else if h.arr.length < o.arr.length ∧ isSubset h.arr o.arr then h
  else if h.sorted ∧ o.sorted then ⟨interFast o.arr 0 h.arr, h.sorted⟩
  else ⟨h.arr.filter (fun x => o.arr.contains x), h.sorted⟩

/-! ## LimitIter -/

structure LState (α : Type) where
  cursor : Nat
  buffer : List α
  out : List α
  stopped : Bool

/-- one item arrives from the inner iterator -/
def lstep {α} (b e : Int) (s : LState α) (x : α) : LState α :=
  if s.stopped then s else
  let c : Int := s.cursor
  if b ≥ 0 ∧ c ≥ b ∧ (e = 0 ∨ c < e) then { s with cursor := s.cursor + 1, out := s.out ++ [x] }
  else if b ≥ 0 ∧ c ≥ b ∧ e > 0 ∧ c ≥ e then { s with cursor := s.cursor + 1, stopped := true }
  else
    let push := (b < 0 ∨ (b ≥ 0 ∧ c ≥ b)) ∧ (e ≤ 0 ∨ c < e)
    let buf1 := if push then s.buffer ++ [x] else s.buffer
    let buf2 := if push ∧ e = 0 ∧ b < 0 ∧ buf1.length > b.natAbs then buf1.drop (buf1.length - b.natAbs) else buf1
    { s with cursor := s.cursor + 1, buffer := buf2 }

/-- the inner iterator is exhausted: prune the buffer and emit it -/
def lfinish {α} (b e : Int) (s : LState α) : List α :=
  if s.stopped then s.out
  else if b ≥ 0 ∧ e ≥ 0 then s.out
  else
    let buf1 := if b < 0 ∧ e ≠ 0 then s.buffer.drop (min (s.cursor - b.natAbs) s.buffer.length) else s.buffer
    let buf2 := if e < 0 then buf1.take (buf1.length - e.natAbs) else buf1
    s.out ++ buf2

/-- `iter.limit(b, e).collect()` -/
def limit {α} (b e : Int) (xs : List α) : List α :=
  lfinish b e (xs.foldl (lstep b e) ⟨0, [], [], false⟩)

/-- what LIMIT means: negative numbers are relative to the end, `end = 0` is "until the end" -/
def slice {α} (b e : Int) (xs : List α) : List α :=
  let n : Int := xs.length
  let lo := if b ≥ 0 then min b n else max (n + b) 0
  let hi := if e > 0 then min e n else max (n + e) 0
  (xs.take hi.toNat).drop lo.toNat

end Stam.Coll
