/- GENERATED: no kernels yet -/
