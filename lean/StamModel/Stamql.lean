import StamModel.Prelude
/-
  C09 — the lexical layer of the STAMQL parser (src/api/query.rs: get_arg_type, get_arg,
  parse_dataoperator) and the operator printer (src/datavalue.rs: DataOperator::to_string).

  Texts are lists of code points: `get_arg` only slices at the byte offsets of ASCII delimiters it has just
  seen through `char_indices`, so every slice is on a character boundary and the character view is exact.

  External (trusted, parameters of the model):
   * `isDt`   — `DateTime::parse_from_rfc3339(s).is_ok()` (chrono);
   * `parseI` — `str::parse::<isize>` (std): optional sign, digits, range check;
   * floats are kept as their literal (the model never computes with them).
-/
namespace Stam.QL

abbrev Str := List Char

inductive ArgType where
  | string | integer | float | unquotedList | list | null | bool | datetime | any
deriving Repr, DecidableEq

/-- the scan of `get_arg_type`: `none` = no list separator met, with the final (numeric, foundperiod) flags -/
def scanType : (s : Str) → (numeric foundperiod : Bool) → (prevc : Option Char) → Option (Bool × Bool)
  | [], numeric, fp, _ => some (numeric, fp)
  | c :: cs, numeric, fp, prevc =>
    if c = '|' ∧ prevc ≠ some '\\' then none
    else
      let numeric1 := if ¬ c.isDigit ∧ c ≠ '.' then (if c ≠ '-' ∨ prevc ≠ none then false else numeric) else numeric
      let (numeric2, fp2) := if numeric1 ∧ c = '.' then ((if fp then false else numeric1), true) else (numeric1, fp)
      scanType cs numeric2 fp2 (some c)

def argType (isDt : Str → Bool) (s : Str) (quoted : Bool) : ArgType :=
  if s.isEmpty then .string else
  match scanType s (!quoted) false none with
  | none => if quoted then .list else .unquotedList
  | some (numeric, fp) =>
    if numeric then (if fp then .float else .integer)
    else if quoted then .string
    else if s = ['n', 'u', 'l', 'l'] then .null
    else if s = ['a', 'n', 'y'] then .any
    else if s = ['t', 'r', 'u', 'e'] ∨ s = ['f', 'a', 'l', 's', 'e'] then .bool
    else if isDt s then .datetime
    else .string

/-- `char::is_whitespace` (Unicode White_Space) -/
def isWs (c : Char) : Bool :=
  let n := c.toNat
  n = 0x20 ∨ (0x09 ≤ n ∧ n ≤ 0x0D) ∨ n = 0x85 ∨ n = 0xA0 ∨ n = 0x1680 ∨ (0x2000 ≤ n ∧ n ≤ 0x200A) ∨
  n = 0x2028 ∨ n = 0x2029 ∨ n = 0x202F ∨ n = 0x205F ∨ n = 0x3000

def trimStart : Str → Str
  | [] => []
  | c :: cs => if isWs c then trimStart cs else c :: cs

def startsWith (s p : Str) : Bool := p.isPrefixOf s

def isDelim (c : Char) : Bool := c = ';' ∨ c = ' ' ∨ c = ']' ∨ c = '\n' ∨ c = '\t'

/-- `get_arg`: `all` is the whole input, `i` the number of characters already scanned, `rest` what follows -/
def getArgAux (isDt : Str → Bool) (all : Str) :
    (rest : Str) → (i : Nat) → (quote escaped : Bool) → (begin : Nat) → Option (Str × Str × ArgType)
  | [], _, _, _, _ => none
  | c :: cs, i, quote, escaped, begin =>
    let toggles := c = '"' ∧ ¬ escaped
    let quote1 := if toggles then !quote else quote
    let begin1 := if toggles ∧ quote1 then i + 1 else begin
    if toggles ∧ ¬ quote1 then
      let s := (all.take i).drop begin
      some (s, trimStart cs, argType isDt s true)
    else if ¬ quote1 ∧ startsWith (c :: cs) [' ', 'O', 'R', ' '] then
      some (all.take i, trimStart cs, argType isDt (all.take i) false)
    else if ¬ quote1 ∧ isDelim c then
      some (all.take i, trimStart (c :: cs), argType isDt (all.take i) false)
    else getArgAux isDt all cs (i + 1) quote1 (c = '\\') begin1

def getArg (isDt : Str → Bool) (s : Str) : Option (Str × Str × ArgType) := getArgAux isDt s s 0 false false 0

/-! ## operators -/

/-- `DataOperator` as far as the parser can produce it; floats and datetimes keep their literal -/
inductive Op where
  | any | null | tru | fls
  | eq (s : Str) | eqi (n : Int) | eqf (lit : Str) | eqd (lit : Str)
  | gt (n : Int) | ge (n : Int) | lt (n : Int) | le (n : Int)
  | gtf (lit : Str) | gef (lit : Str) | ltf (lit : Str) | lef (lit : Str)
  | gtd (lit : Str) | ged (lit : Str) | ltd (lit : Str) | led (lit : Str)
  | not (o : Op) | or (os : List Op)
deriving Repr

def splitOn (sep : Char) : Str → List Str
  | [] => [[]]
  | c :: cs =>
    match splitOn sep cs with
    | [] => [[]]
    | h :: t => if c = sep then [] :: h :: t else (c :: h) :: t

/-- an element of an unquoted list: integer, else float, else string -/
def listElem (parseI : Str → Option Int) (parseF : Str → Bool) (x : Str) : Op :=
  match parseI x with
  | some n => .eqi n
  | none => if parseF x then .eqf x else .eq x

/-- `parse_dataoperator`. `.err` = QuerySyntaxError, `.panic` = one of the `unreachable!`/`expect` sites. -/
def parseOp (parseI : Str → Option Int) (parseF : Str → Bool) (isDt : Str → Bool)
    (opstr value : Str) (ty : ArgType) : Out Op :=
  let int (k : Int → Op) : Out Op := match parseI value with | some n => .ok (k n) | none => .err "syntax"
  let flt (k : Str → Op) : Out Op := if parseF value then .ok (k value) else .err "syntax"
  let dt (k : Str → Op) : Out Op := if isDt value then .ok (k value) else .panic "datetime RFC3339 parsing should work"
  let bool : Out Op :=
    if value = ['t', 'r', 'u', 'e'] then .ok .tru else if value = ['f', 'a', 'l', 's', 'e'] then .ok .fls
    else .panic "boolean should be true or false"
  let neg (o : Out Op) : Out Op := o.map .not
  let eqv : Out Op :=
    match ty with
    | .string => .ok (.eq value)
    | .null => .ok .null
    | .any => .ok .any
    | .bool => bool
    | .integer => int .eqi
    | .float => flt .eqf
    | .list => .ok (.or ((splitOn '|' value).map .eq))
    | .unquotedList => .ok (.or ((splitOn '|' value).map (listElem parseI parseF)))
    | .datetime => dt .eqd
  if opstr = ['='] then eqv
  else if opstr = ['!', '='] then (match ty with | .datetime => .err "syntax" | _ => neg eqv)
  else if opstr = ['>'] then (match ty with | .integer => int .gt | .float => flt .gtf | .datetime => dt .gtd | _ => .err "syntax")
  else if opstr = ['>', '='] then (match ty with | .integer => int .ge | .float => flt .gef | .datetime => dt .ged | _ => .err "syntax")
  else if opstr = ['<'] then (match ty with | .integer => int .lt | .float => flt .ltf | .datetime => dt .ltd | _ => .err "syntax")
  else if opstr = ['<', '='] then (match ty with | .integer => int .le | .float => flt .lef | .datetime => dt .led | _ => .err "syntax")
  else .err "syntax"

/-- `DataOperator::to_string` on the operators that have a syntax: (operator token, value token, value is quoted) -/
def printOp (showI : Int → Str) : Op → Option (Str × Str × Bool)
  | .any => some (['='], ['a', 'n', 'y'], false)
  | .null => some (['='], ['n', 'u', 'l', 'l'], false)
  | .tru => some (['='], ['t', 'r', 'u', 'e'], false)
  | .fls => some (['='], ['f', 'a', 'l', 's', 'e'], false)
  | .eq s => some (['='], s, true)
  | .eqi n => some (['='], showI n, false)
  | .eqf l => some (['='], l, false)
  | .eqd l => some (['='], l, false)
  | .gt n => some (['>'], showI n, false)
  | .ge n => some (['>', '='], showI n, false)
  | .lt n => some (['<'], showI n, false)
  | .le n => some (['<', '='], showI n, false)
  | .gtf l => some (['>'], l, false)
  | .gef l => some (['>', '='], l, false)
  | .ltf l => some (['<'], l, false)
  | .lef l => some (['<', '='], l, false)
  | .gtd l => some (['>'], l, false)
  | .ged l => some (['>', '='], l, false)
  | .ltd l => some (['<'], l, false)
  | .led l => some (['<', '='], l, false)
  | .not o =>
    match o with
    | .eq s => some (['!', '='], s, true)
    | .eqi n => some (['!', '='], showI n, false)
    | .eqf l => some (['!', '='], l, false)
    | .any => some (['!', '='], ['a', 'n', 'y'], false)
    | .null => some (['!', '='], ['n', 'u', 'l', 'l'], false)
    | .tru => some (['!', '='], ['t', 'r', 'u', 'e'], false)
    | .fls => some (['!', '='], ['f', 'a', 'l', 's', 'e'], false)
    | _ => none
  | .or _ => none

/-- the text `to_string` writes for an operator: `<op> <value>` with the value quoted when it is a string -/
def renderOp (showI : Int → Str) (o : Op) : Option Str :=
  (printOp showI o).map (fun (op, v, q) => op ++ [' '] ++ (if q then ['"'] ++ v ++ ['"'] else v))

end Stam.QL
