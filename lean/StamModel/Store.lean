import StamModel.Offset
/-
  G1 model: the annotation store under add / annotate / remove operations
  (src/store.rs, src/annotationstore.rs, src/annotation.rs, src/annotationdataset.rs).

  * `Store<T> = Vec<Option<T>>`  ↦  `List (Option T)`; handles are list indices, never reused.
  * the seven reverse indices (dataset_data_annotation_map, textrelationmap,
    resource/dataset/key/data _annotation_metamap, annotation_annotation_map) are modelled uniformly
    as ONE edge list `List (Key × Nat)` that the operations maintain incrementally exactly as the
    code does (push on insert unless already last, erase on removal, `remove_all`);
    a lookup is `edges.filter (·.1 = k)`.
  * id maps and the key→data index are derived by scanning the live items.
  Text content is irrelevant here: a resource is its length and its list of known selections.
-/
namespace Stam

structure ResM where
  id : String
  len : Nat
  sels : List (Nat × Nat)        -- known text selections, index = handle (never removed)
deriving Repr, DecidableEq

structure DataM where
  id : Option String
  key : Nat
  val : String                   -- canonical rendering of the value, e.g. "s:abc", "i:5"
deriving Repr, DecidableEq

structure SetM where
  id : String
  keys : List (Option String)    -- key ids, index = handle
  data : List (Option DataM)
deriving Repr, DecidableEq

/-- a resolved simple selector (handles only) -/
inductive SelM where
  | res (r : Nat)
  | text (r t : Nat) (m : OffsetMode)
  | ann (a : Nat)
  | annoff (a r t : Nat) (m : OffsetMode)
  | set (s : Nat)
  | key (s k : Nat)
  | data (s d : Nat)
deriving Repr, DecidableEq

inductive CKind | multi | comp | dir
deriving Repr, DecidableEq

inductive TargetM where
  | simple (s : SelM)
  | complex (k : CKind) (l : List SelM)
deriving Repr, DecidableEq

structure AnnM where
  id : Option String
  target : TargetM
  data : List (Nat × Nat)
deriving Repr, DecidableEq

/-- the key of a reverse-index entry: which map, and which item in it -/
inductive Key where
  | data (s d : Nat)      -- dataset_data_annotation_map
  | tsel (r t : Nat)      -- textrelationmap
  | resMeta (r : Nat)     -- resource_annotation_metamap
  | setMeta (s : Nat)     -- dataset_annotation_metamap
  | ann (a : Nat)         -- annotation_annotation_map
  | keyMeta (s k : Nat)   -- key_annotation_metamap
  | dataMeta (s d : Nat)  -- data_annotation_metamap
deriving Repr, DecidableEq

structure State where
  res : List (Option ResM)
  sets : List (Option SetM)
  anns : List (Option AnnM)
  edges : List (Key × Nat)
deriving Repr, DecidableEq

def State.empty : State := ⟨[], [], [], []⟩

/-! ### requests (what a builder names) -/

/-- a reference to an item: by public id or by handle -/
inductive Ref where
  | id (s : String)
  | h (n : Nat)
deriving Repr, DecidableEq

inductive SelReq where
  | res (r : String)
  | text (r : String) (o : Offset)
  | ann (a : Ref)
  | annoff (a : Ref) (o : Offset)
  | set (s : String)
  | key (s k : String)
  | data (s : String) (d : Ref)
  | nested                       -- a complex selector inside a complex selector
deriving Repr, DecidableEq

inductive TargetReq where
  | simple (s : SelReq)
  | complex (k : CKind) (l : List SelReq)
deriving Repr, DecidableEq

structure DataReq where
  set : String
  key : Option String
  val : Option String
  id : Option Ref
deriving Repr, DecidableEq

/-! ### lookups -/

def getLive {α} (l : List (Option α)) (h : Nat) : Option α := (l[h]?).join

def findIdx {α} (l : List (Option α)) (p : α → Bool) : Option Nat :=
  let rec go : List (Option α) → Nat → Option Nat
    | [], _ => none
    | some a :: rest, i => if p a then some i else go rest (i + 1)
    | none :: rest, i => go rest (i + 1)
  go l 0

def State.resolveRes (s : State) (id : String) : Option Nat := findIdx s.res (fun r => r.id == id)
def State.resolveSet (s : State) (id : String) : Option Nat := findIdx s.sets (fun x => x.id == id)
def State.resolveAnn (s : State) : Ref → Option Nat
  | .id i => findIdx s.anns (fun a => a.id == some i)
  | .h n => if (getLive s.anns n).isSome then some n else none

def SetM.keyByName (x : SetM) (name : String) : Option Nat := findIdx x.keys (fun k => k == name)
def SetM.resolveData (x : SetM) : Ref → Option Nat
  | .id i => findIdx x.data (fun d => d.id == some i)
  | .h n => if (getLive x.data n).isSome then some n else none

/-- lookup in a reverse index: annotation handles recorded for `k`, in storage order -/
def State.lookup (s : State) (k : Key) : List Nat := (s.edges.filter (fun e => e.1 == k)).map (·.2)

/-! ### forward references of an annotation -/

def SelM.keys : SelM → List Key
  | .res r => [.resMeta r]
  | .text r t _ => [.tsel r t]
  | .ann a => [.ann a]
  | .annoff a r t _ => [.ann a, .tsel r t]
  | .set s => [.setMeta s]
  | .key s k => [.keyMeta s k]
  | .data s d => [.dataMeta s d]

def TargetM.sels : TargetM → List SelM
  | .simple s => [s]
  | .complex _ l => l

/-- every index key an annotation must be listed under, from its own target and data only -/
def AnnM.fwd (a : AnnM) : List Key :=
  a.data.map (fun p => Key.data p.1 p.2) ++ a.target.sels.flatMap SelM.keys

/-- `RelationMap::insert`: push unless the same entry is already the last one for this key -/
def addEdge (edges : List (Key × Nat)) (k : Key) (h : Nat) : List (Key × Nat) :=
  if ((edges.filter (fun e => e.1 == k)).getLast?.map (·.2)) == some h then edges else edges ++ [(k, h)]

def addEdges (edges : List (Key × Nat)) (ks : List Key) (h : Nat) : List (Key × Nat) :=
  ks.foldl (fun es k => addEdge es k h) edges

/-- `RelationMap::remove`: erase the first entry `(k, h)` -/
def eraseEdge (edges : List (Key × Nat)) (k : Key) (h : Nat) : List (Key × Nat) := edges.erase (k, h)

/-! ### text selections of a resource -/

/-- `known_textselection` else `insert`: handle of the range, appended when new -/
def ResM.selHandle (r : ResM) (b e : Nat) : ResM × Nat :=
  match r.sels.findIdx? (fun p => p == (b, e)) with
  | some t => (r, t)
  | none => ({ r with sels := r.sels ++ [(b, e)] }, r.sels.length)

def setAt {α} (l : List α) (i : Nat) (x : α) : List α := l.set i x

/-- the single text selection an annotation's target denotes, if it is a TextSelector or an
AnnotationSelector with offset (`Selector::textselection`) -/
def AnnM.textsel (a : AnnM) : Option (Nat × Nat) :=
  match a.target with
  | .simple (.text r t _) => some (r, t)
  | .simple (.annoff _ r t _) => some (r, t)
  | _ => none

/-! ### building selectors (`AnnotationStore::selector`), effects included -/

/-- resolve one simple selector request; may insert a text selection. `none` = error. -/
def State.selector (s : State) : SelReq → Option (State × SelM)
  | .res r => (s.resolveRes r).map (fun h => (s, .res h))
  | .text r o =>
    match s.resolveRes r with
    | none => none
    | some rh =>
      match getLive s.res rh with
      | none => none
      | some rm =>
        match Stam.resolveRes rm.len o with
        | .ok (b, e) =>
          let (rm', t) := rm.selHandle b e
          some ({ s with res := setAt s.res rh (some rm') }, .text rh t o.mode)
        | _ => none
  | .ann a => (s.resolveAnn a).map (fun h => (s, .ann h))
  | .annoff a o =>
    match s.resolveAnn a with
    | none => none
    | some ah =>
      match (getLive s.anns ah).bind AnnM.textsel with
      | none => none                      -- the target has no single text selection the offset could be relative to: refused
      | some (rh, pt) =>
        match getLive s.res rh with
        | none => none
        | some rm =>
          match rm.sels[pt]? with
          | none => none
          | some (pb, pe) =>
            match resolveSub pb pe o with
            | .ok (b, e) =>
              let (rm', t) := rm.selHandle b e
              some ({ s with res := setAt s.res rh (some rm') }, .annoff ah rh t o.mode)
            | _ => none
  | .set x => (s.resolveSet x).map (fun h => (s, .set h))
  | .key x k =>
    match s.resolveSet x with
    | none => none
    | some sh => ((getLive s.sets sh).bind (fun m => m.keyByName k)).map (fun kh => (s, .key sh kh))
  | .data x d =>
    match s.resolveSet x with
    | none => none
    | some sh => ((getLive s.sets sh).bind (fun m => m.resolveData d)).map (fun dh => (s, .data sh dh))
  | .nested => none

/-- rank used to order sub-selectors of Multi/Composite selectors -/
def SelM.rank : SelM → Nat
  | .text .. | .annoff .. => 0
  | .res _ => 1
  | .set _ => 2
  | .ann _ => 3
  | .key .. => 4
  | .data .. => 5

def State.selRange (s : State) (r t : Nat) : Nat × Nat :=
  ((getLive s.res r).bind (fun rm => rm.sels[t]?)).getD (0, 0)

/-- the (total) order of the fixed comparator: `a` sorts before-or-equal `b` -/
def State.selLe (s : State) (a b : SelM) : Bool :=
  let pos : SelM → Option (Nat × Nat × Nat)
    | .text r t _ => some (r, s.selRange r t)
    | .annoff _ r t _ => some (r, s.selRange r t)
    | _ => none
  match pos a, pos b with
  | some (r1, b1, e1), some (r2, b2, e2) =>
    if r1 ≠ r2 then r1 ≤ r2 else if b1 ≠ b2 then b1 ≤ b2 else e1 ≤ e2
  | _, _ =>
    if a.rank ≠ b.rank then a.rank ≤ b.rank else
    match a, b with
    | .res x, .res y => x ≤ y
    | .set x, .set y => x ≤ y
    | .ann x, .ann y => x ≤ y
    | .key s1 k1, .key s2 k2 => if s1 ≠ s2 then s1 ≤ s2 else k1 ≤ k2
    | .data s1 d1, .data s2 d2 => if s1 ≠ s2 then s1 ≤ s2 else d1 ≤ d2
    | _, _ => true

/-- stable insertion sort -/
def insertSel (le : SelM → SelM → Bool) (x : SelM) : List SelM → List SelM
  | [] => [x]
  | y :: ys => if le y x then y :: insertSel le x ys else x :: y :: ys

def sortSels (le : SelM → SelM → Bool) (l : List SelM) : List SelM :=
  l.foldl (fun acc x => insertSel le x acc) []

/-- `subselectors`: resolve in order (effects of earlier ones persist on failure) -/
def State.subselectors (s : State) : List SelReq → Option (State × List SelM) × State
  | [] => (some (s, []), s)
  | r :: rs =>
    match s.selector r with
    | none => (none, s)
    | some (s1, m) =>
      match s1.subselectors rs with
      | (some (s2, ms), _) => (some (s2, m :: ms), s2)
      | (none, sfail) => (none, sfail)

/-- build a target; returns the state reached even on failure (partial effects persist) -/
def State.target (s : State) : TargetReq → Option TargetM × State
  | .simple r =>
    match s.selector r with
    | some (s1, m) => (some (.simple m), s1)
    | none => (none, s)
  | .complex k rs =>
    match s.subselectors rs with
    | (some (s1, ms), _) =>
      let ms' := if ms.length ≤ 1 ∨ k = .dir then ms else sortSels s1.selLe ms
      (some (.complex k ms'), s1)
    | (none, sfail) => (none, sfail)

/-! ### data (`AnnotationStore::insert_data` → `AnnotationDataSet::insert_data`) -/

/-- returns the (set, data) handles, `none` on error; the state is returned in both cases -/
def State.insertData (s : State) (d : DataReq) : Option (Nat × Nat) × State :=
  -- obtain (or create) the dataset
  let (sh, s1) : Nat × State :=
    match s.resolveSet d.set with
    | some sh => (sh, s)
    | none => (s.sets.length, { s with sets := s.sets ++ [some ⟨d.set, [], []⟩] })
  match getLive s1.sets sh with
  | none => (none, s1)
  | some m =>
    -- data with this id already exists: return as is
    match d.id.bind m.resolveData with
    | some dh => (some (sh, dh), s1)
    | none =>
      match d.key with
      | none => (none, s1)
      | some kname =>
        let (kh, m1, newkey) : Nat × SetM × Bool :=
          match m.keyByName kname with
          | some kh => (kh, m, false)
          | none => (m.keys.length, { m with keys := m.keys ++ [some kname] }, true)
        let v := d.val.getD "n"
        let idstr : Option String := match d.id with
          | some (.id i) => some i
          | _ => none
        -- dedup on (key, value) when no id is given and the key is not new
        let dup : Option Nat :=
          if !newkey && d.id.isNone then findIdx m1.data (fun x => x.key == kh && x.val == v) else none
        match dup with
        | some dh => (some (sh, dh), { s1 with sets := setAt s1.sets sh (some m1) })
        | none =>
          let m2 := { m1 with data := m1.data ++ [some ⟨idstr, kh, v⟩] }
          (some (sh, m1.data.length), { s1 with sets := setAt s1.sets sh (some m2) })

def State.insertDataList (s : State) : List DataReq → Option (List (Nat × Nat)) × State
  | [] => (some [], s)
  | d :: ds =>
    match s.insertData d with
    | (none, s1) => (none, s1)
    | (some p, s1) =>
      match s1.insertDataList ds with
      | (some ps, s2) => (some (p :: ps), s2)
      | (none, s2) => (none, s2)

/-! ### the operations -/

inductive Resp where
  | ok (txt : String)
  | err
deriving Repr, DecidableEq

/-- `add_resource` (a resource is identified by id and text; the text is determined by its length here) -/
def State.addRes (s : State) (id : String) (len : Nat) : Resp × State :=
  match s.resolveRes id with
  | some h =>
    if (getLive s.res h).map (·.len) == some len then (.ok (toString h), s) else (.err, s)
  | none => (.ok (toString s.res.length), { s with res := s.res ++ [some ⟨id, len, []⟩] })

/-- keys a builder declares, each name once (later repetitions resolve to the first) -/
def declKeys (ks : List String) : List (Option String) := (ks.eraseDups).map some

/-- `add_dataset` with a builder that declares keys and no data; an existing set with the same id is
accepted (and nothing inserted) only when it is identical -/
def State.addSet (s : State) (id : String) (ks : List String := []) : Resp × State :=
  match s.resolveSet id with
  | some h =>
    match getLive s.sets h with
    | some m => if m.keys == declKeys ks && m.data.isEmpty then (.ok (toString h), s) else (.err, s)
    | none => (.err, s)
  | none => (.ok (toString s.sets.length), { s with sets := s.sets ++ [some ⟨id, declKeys ks, []⟩] })

def State.addData (s : State) (d : DataReq) : Resp × State :=
  match s.insertData d with
  | (some (sh, dh), s1) => (.ok s!"{sh}.{dh}", s1)
  | (none, s1) => (.err, s1)

/-- `annotate`: selector → insert_data* → insert (duplicate id check, push, index) -/
def State.annotate (s : State) (id : Option String) (t : TargetReq) (ds : List DataReq) : Resp × State :=
  match s.target t with
  | (none, s1) => (.err, s1)
  | (some tm, s1) =>
    match s1.insertDataList ds with
    | (none, s2) => (.err, s2)
    | (some data, s2) =>
      let a : AnnM := ⟨id, tm, data⟩
      let existing : Option Nat := id.bind (fun i => s2.resolveAnn (.id i))
      match existing with
      | some h =>
        -- same id: accepted (and nothing inserted) only when the item is identical
        if getLive s2.anns h == some a then (.ok (toString h), s2) else (.err, s2)
      | none =>
        let h := s2.anns.length
        (.ok (toString h), { s2 with anns := s2.anns ++ [some a], edges := addEdges s2.edges a.fwd h })

/-! ### batches -/

/-- one element of a batch -/
structure Item where
  id : Option String
  target : TargetReq
  data : List DataReq

/-- `annotate_from_iter`: the handles of the annotations added, or the refusal, and the store afterwards -/
def annotateAll (s : State) : List Item → Option (List String) × State
  | [] => (some [], s)
  | it :: r =>
    match s.annotate it.id it.target it.data with
    | (.ok h, s1) =>
      match annotateAll s1 r with
      | (some hs, s2) => (some (h :: hs), s2)
      | (none, s2) => (none, s2)
    | (.err, s1) => (none, s1)

/-- the elements annotated one after another, whatever each answers -/
def annotateSeq (s : State) : List Item → State
  | [] => s
  | it :: r => annotateSeq (s.annotate it.id it.target it.data).2 r


/-- `StoreFor<Annotation>::remove` with its `preremove` callback: first (recursively) the
annotations that point at this one, then un-index, then tombstone. `fuel` bounds the recursion. -/
def State.removeAnn (fuel : Nat) (s : State) (h : Nat) : Option State :=
  match fuel with
  | 0 => none
  | fuel + 1 =>
    match getLive s.anns h with
    | none => none
    | some _ =>
      -- recursion step over a clone of the list of annotations that reference this one
      let deps := s.lookup (.ann h)
      let s1 : Option State := deps.foldl (fun acc d =>
        acc.bind (fun st => if (getLive st.anns d).isSome then State.removeAnn fuel st d else some st)) (some s)
      s1.bind (fun st =>
        match getLive st.anns h with
        | none => none
        | some a =>
          -- remove_all on the annotation map for this handle, then erase every forward entry
          let es := st.edges.filter (fun e => e.1 != Key.ann h)
          let es := a.fwd.foldl (fun es k => eraseEdge es k h) es
          some { st with anns := setAt st.anns h none, edges := es })

def State.fuel (s : State) : Nat := s.anns.length + 1

def State.removeAnnIfPresent (s : State) (h : Nat) : Option State :=
  if (getLive s.anns h).isSome then s.removeAnn s.fuel h else some s

def State.removeAll (s : State) (hs : List Nat) : Option State :=
  hs.foldl (fun acc h => acc.bind (fun st => st.removeAnnIfPresent h)) (some s)

/-- the number of a temporary identifier: one or more ASCII digits, below 2^64 (no sign) -/
def parseUsize (cs : List Char) : Option Nat :=
  let ds := cs
  if ds.isEmpty || !ds.all (fun c => '0' ≤ c && c ≤ '9') then none
  else
    let v := ds.foldl (fun acc c => acc * 10 + (c.toNat - '0'.toNat)) 0
    if v < 2 ^ 64 then some v else none

/-- `resolve_temp_id` guarded by the type letter: `!<L><n>` -/
def tempId (letter : Char) (id : String) : Option Nat :=
  match id.toList with
  | '!' :: l :: rest => if l = letter then parseUsize rest else none
  | _ => none

/-- the temporary-identifier reading of a lookup string: the live slot it names -/
def tempSlot {α} (letter : Char) (slots : List (Option α)) (id : String) : Option Nat :=
  match tempId letter id with
  | some n => if (getLive slots n).isSome then some n else none
  | none => none

/-- `resolve_id` + the liveness check of `get`: an item that carries the string as its public identifier comes first,
then the temporary-identifier reading -/
def State.lookupAnn (s : State) (id : String) : Option Nat :=
  match s.resolveAnn (.id id) with
  | some h => some h
  | none => tempSlot 'A' s.anns id

def State.lookupRes (s : State) (id : String) : Option Nat :=
  match s.resolveRes id with
  | some h => some h
  | none => tempSlot 'R' s.res id

def State.lookupSet (s : State) (id : String) : Option Nat :=
  match s.resolveSet id with
  | some h => some h
  | none => tempSlot 'S' s.sets id

def dedupSorted (l : List Nat) : List Nat := (l.mergeSort (· ≤ ·)).eraseDups

/-- `Request::to_handle`: an id is resolved through the id map, a handle is taken as is -/
def State.annHandleOf (s : State) : Ref → Option Nat
  | .id i => s.lookupAnn i
  | .h n => some n

def State.rmAnn (s : State) (r : Ref) : Resp × State :=
  match (s.annHandleOf r).bind (fun h => s.removeAnn s.fuel h) with
  | some s1 => (.ok "-", s1)
  | none => (.err, s)

/-- `remove_resource` -/
def State.rmRes (s : State) (id : String) : Resp × State :=
  match s.lookupRes id with
  | none => (.err, s)
  | some rh =>
    let metas := s.lookup (.resMeta rh)
    match s.removeAll metas with
    | none => (.err, s)
    | some s1 =>
      let txt := dedupSorted ((s1.edges.filter (fun e => match e.1 with | .tsel r _ => r == rh | _ => false)).map (·.2))
      match s1.removeAll txt with
      | none => (.err, s1)
      | some s2 =>
        let es := s2.edges.filter (fun e => match e.1 with
          | .resMeta r => r != rh
          | .tsel r _ => r != rh
          | _ => true)
        (.ok "-", { s2 with res := setAt s2.res rh none, edges := es })

/-- `remove_dataset` -/
def State.rmSet (s : State) (id : String) : Resp × State :=
  match s.lookupSet id with
  | none => (.err, s)
  | some sh =>
    let users : List Nat := (List.range s.anns.length).filter (fun h =>
      match getLive s.anns h with
      | some a => a.data.any (fun p => p.1 == sh)
      | none => false)
    let metas := (s.edges.filter (fun e => match e.1 with
      | .keyMeta x _ => x == sh
      | .dataMeta x _ => x == sh
      | _ => false)).map (·.2)
    match s.removeAll (dedupSorted (users ++ metas)) with
    | none => (.err, s)
    | some s1 =>
      match s1.removeAll (s1.lookup (.setMeta sh)) with
      | none => (.err, s1)
      | some s2 =>
        let es := s2.edges.filter (fun e => match e.1 with
          | .setMeta x => x != sh
          | .keyMeta x _ => x != sh
          | .dataMeta x _ => x != sh
          | .data x _ => x != sh
          | _ => true)
        (.ok "-", { s2 with sets := setAt s2.sets sh none, edges := es })

/-- removal of one data reference from one annotation (or of the whole annotation).
The code un-indexes the dropped reference in a loop after all annotations were visited; the model
does it at once, which is the same for every state an observer can see (see DESIGN.md). -/
def State.dropData (s : State) (sh dh : Nat) (strict : Bool) (ah : Nat) : Option State :=
  match getLive s.anns ah with
  | none => some s        -- already removed as a dependency of an earlier one
  | some a =>
    if strict then s.removeAnn s.fuel ah
    else
      let rest := a.data.filter (fun p => !(p.1 == sh && p.2 == dh))
      if rest.isEmpty && !a.data.isEmpty then s.removeAnn s.fuel ah
      else some { s with anns := setAt s.anns ah (some { a with data := rest }),
                         edges := eraseEdge s.edges (.data sh dh) ah }

/-- `remove_data` on resolved handles -/
def State.rmDataH (s : State) (sh dh : Nat) (strict : Bool) : Option State :=
  let users := s.lookup (.data sh dh)
  match users.foldl (fun acc ah => acc.bind (fun st => st.dropData sh dh strict ah)) (some s) with
  | none => none
  | some s1 =>
    match s1.removeAll (s1.lookup (.dataMeta sh dh)) with
    | none => none
    | some s2 =>
      let es := s2.edges.filter (fun e => e.1 != Key.dataMeta sh dh)
      match getLive s2.sets sh with
      | none => none
      | some m =>
        match getLive m.data dh with
        | none => none      -- StoreFor<AnnotationData>::remove fails on a handle that is not there
        | some _ =>
          let m' := { m with data := setAt m.data dh none }
          some { s2 with sets := setAt s2.sets sh (some m'), edges := es }

/-- `Request::to_handle` for data: an id goes through the id map, a handle is taken as is -/
def SetM.dataHandleOf (m : SetM) : Ref → Option Nat
  | .id i => m.resolveData (.id i)
  | .h n => some n

def State.rmData (s : State) (set : String) (d : Ref) (strict : Bool) : Resp × State :=
  match s.resolveSet set with
  | none => (.ok "-", s)
  | some sh =>
    match getLive s.sets sh with
    | none => (.err, s)
    | some m =>
      match m.dataHandleOf d with
      | none => (.ok "-", s)
      | some dh =>
        match s.rmDataH sh dh strict with
        | some s1 => (.ok "-", s1)
        | none => (.err, s)

/-- `remove_key` -/
def State.rmKey (s : State) (set : String) (key : String) (strict : Bool) : Resp × State :=
  match s.resolveSet set with
  | none => (.ok "-", s)
  | some sh =>
    match getLive s.sets sh with
    | none => (.err, s)
    | some m =>
      match m.keyByName key with
      | none => (.ok "-", s)
      | some kh =>
        let datas : List Nat := (List.range m.data.length).filter (fun dh =>
          match getLive m.data dh with
          | some d => d.key == kh
          | none => false)
        match datas.foldl (fun acc dh => acc.bind (fun st => st.rmDataH sh dh strict)) (some s) with
        | none => (.err, s)
        | some s1 =>
          match getLive s1.sets sh with
          | none => (.err, s1)
          | some m1 =>
            let s2 := { s1 with sets := setAt s1.sets sh (some { m1 with keys := setAt m1.keys kh none }) }
            match s2.removeAll (s2.lookup (.keyMeta sh kh)) with
            | none => (.err, s2)
            | some s3 => (.ok "-", { s3 with edges := s3.edges.filter (fun e => e.1 != Key.keyMeta sh kh) })

end Stam

namespace Stam

/-! ### public identifiers (C03) -/

/-- `strip_annotation_ids` -/
def State.stripAnn (s : State) : State :=
  { s with anns := s.anns.map (fun o => o.map (fun a => { a with id := none })) }

/-- `strip_data_ids` -/
def State.stripData (s : State) : State :=
  { s with sets := s.sets.map (fun o => o.map (fun m =>
      { m with data := m.data.map (fun d => d.map (fun x => { x with id := none })) })) }

end Stam
