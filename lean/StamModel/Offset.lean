import StamModel.Prelude
/-
  C04 model: cursors, offsets, their resolution against a resource or a parent selection, and
  the four reporting modes.
    Text::beginaligned_cursor                    src/text.rs
    TextResource::textselection_by_offset        src/resources.rs   (the one `annotate` calls)
    TextSelection::{beginaligned_cursor, textselection_by_offset, relative_*} src/textselection.rs
    Selector::offset_with_mode                   src/selector.rs
  Cursor values are unbounded (`Nat`/`Int`); `isize`/`usize` width is outside the model.
-/
namespace Stam

inductive Cursor where
  | b (n : Nat)      -- Cursor::BeginAligned
  | e (z : Int)      -- Cursor::EndAligned, documented to be ≤ 0
deriving DecidableEq, Repr

structure Offset where
  c1 : Cursor
  c2 : Cursor
deriving DecidableEq, Repr

inductive OffsetMode | bb | be | eb | ee
deriving DecidableEq, Repr

def Cursor.WF : Cursor → Prop
  | .b _ => True
  | .e z => z ≤ 0
def Offset.WF (o : Offset) : Prop := o.c1.WF ∧ o.c2.WF

def Offset.mode (o : Offset) : OffsetMode :=
  match o.c1, o.c2 with
  | .b _, .b _ => .bb
  | .b _, .e _ => .be
  | .e _, .b _ => .eb
  | .e _, .e _ => .ee

/-- the position a cursor denotes in a text of `len` code points (may fall outside `[0,len]`) -/
def Cursor.pos (len : Nat) : Cursor → Int
  | .b n => n
  | .e z => len + z

/-- `Text::beginaligned_cursor` / `TextSelection::beginaligned_cursor` against a text of length `len` -/
def beginAligned (len : Nat) : Cursor → Out Nat
  | .b n => if n > len then .err "CursorOutOfBounds" else .ok n
  | .e z => if z > 0 ∨ z.natAbs > len then .err "CursorOutOfBounds" else .ok (len - z.natAbs)

/-- `TextResource::textselection_by_offset` (and `textselection_by_offset_unchecked`, which performs
the same checks) -/
def resolveRes (len : Nat) (o : Offset) : Out (Nat × Nat) :=
  match beginAligned len o.c1 with
  | .ok b =>
    match beginAligned len o.c2 with
    | .ok e =>
      if b > len then .err "CursorOutOfBounds"
      else if e > len then .err "CursorOutOfBounds"
      else if e < b then .err "InvalidOffset"
      else .ok (b, e)
    | .err c => .err c
    | .panic m => .panic m
  | .err c => .err c
  | .panic m => .panic m

/-- `TextSelection::textselection_by_offset` on the parent selection `[pb, pe)`; absolute result -/
def resolveSub (pb pe : Nat) (o : Offset) : Out (Nat × Nat) :=
  match beginAligned (pe - pb) o.c1 with
  | .ok b =>
    match beginAligned (pe - pb) o.c2 with
    | .ok e => if pb + e < pb + b then .err "InvalidOffset" else .ok (pb + b, pb + e)
    | .err c => .err c
    | .panic m => .panic m
  | .err c => .err c
  | .panic m => .panic m

/-- resolve a chain of offsets, each relative to the selection obtained so far
(annotation on annotation on … on text) -/
def resolveChain : (Nat × Nat) → List Offset → Out (Nat × Nat)
  | p, [] => .ok p
  | (pb, pe), o :: os =>
    match resolveSub pb pe o with
    | .ok q => resolveChain q os
    | .err c => .err c
    | .panic m => .panic m

/-- `Selector::offset_with_mode` for a `TextSelector` on a resource of length `len` -/
def reportRes (m : OffsetMode) (len b e : Nat) : Offset :=
  match m with
  | .bb => ⟨.b b, .b e⟩
  | .be => ⟨.b b, .e ((e : Int) - len)⟩
  | .eb => ⟨.e ((b : Int) - len), .b e⟩
  | .ee => ⟨.e ((b : Int) - len), .e ((e : Int) - len)⟩

/-- `TextSelection::relative_begin` -/
def relBegin (pb b : Nat) : Option Nat := if b ≥ pb then some (b - pb) else none
/-- `TextSelection::relative_end`; `self.end() - container.begin()` underflows (panic) when the
selection ends before the container begins -/
def relEnd (pb pe e : Nat) : Out (Option Nat) :=
  if e ≤ pe then (if e < pb then .panic "attempt to subtract with overflow" else .ok (some (e - pb))) else .ok none
def relBeginEnd (pb pe b : Nat) : Option Int :=
  if b ≥ pb then some (((b - pb : Nat) : Int) - ((pe : Int) - pb)) else none
def relEndEnd (pb pe e : Nat) : Out (Option Int) :=
  if e ≤ pe then (if e < pb then .panic "attempt to subtract with overflow" else .ok (some (((e - pb : Nat) : Int) - ((pe : Int) - pb)))) else .ok none

/-- `TextSelection::relative_offset(container, mode)` as used by `offset_with_mode` for an
`AnnotationSelector` with offset: selection `[b,e)` reported relative to parent `[pb,pe)` -/
def reportRel (m : OffsetMode) (pb pe b e : Nat) : Out (Option Offset) :=
  match m with
  | .bb => match relBegin pb b, relEnd pb pe e with
      | some x, .ok (some y) => .ok (some ⟨.b x, .b y⟩)
      | _, .panic msg => .panic msg
      | _, _ => .ok none
  | .be => match relBegin pb b, relEndEnd pb pe e with
      | some x, .ok (some y) => .ok (some ⟨.b x, .e y⟩)
      | _, .panic msg => .panic msg
      | _, _ => .ok none
  | .ee => match relBeginEnd pb pe b, relEndEnd pb pe e with
      | some x, .ok (some y) => .ok (some ⟨.e x, .e y⟩)
      | _, .panic msg => .panic msg
      | _, _ => .ok none
  | .eb => match relBeginEnd pb pe b, relEnd pb pe e with
      | some x, .ok (some y) => .ok (some ⟨.e x, .b y⟩)
      | _, .panic msg => .panic msg
      | _, _ => .ok none

/-- the code points `[b, e)` of a text -/
def selText {α} (chars : List α) (b e : Nat) : List α := (chars.drop b).take (e - b)

end Stam
