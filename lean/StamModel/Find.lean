import StamModel.Rel
/-
  C06 model: `FindTextSelectionsIter` (src/textselection.rs) over `TextResource::range`
  (`TextSelectionIter`, src/resources.rs).
  The known selections of a resource are a list in handle (insertion) order with pairwise distinct
  ranges (`selector()` never inserts the same range twice).
-/
namespace Stam

/-- stable insertion: `x` goes before the first element with a strictly larger key -/
def insSorted (k : TSel → Nat) (x : TSel) : List TSel → List TSel
  | [] => [x]
  | y :: ys => if k x < k y then x :: y :: ys else y :: insSorted k x ys

/-- stable sort by key (what iterating the position index in key order yields) -/
def sortBy (k : TSel → Nat) (l : List TSel) : List TSel := l.foldl (fun acc x => insSorted k x acc) []

/-- forward `TextSelectionIter` over `range(lo, hi)`: selections that *begin* in `[lo,hi)`, by
ascending begin, equal begins in insertion order -/
def fwdRange (sels : List TSel) (lo hi : Nat) : List TSel :=
  sortBy (·.b) (sels.filter (fun t => decide (lo ≤ t.b) && decide (t.b < hi)))

/-- backward iteration over `range(lo, hi)` with every hit pushed to the *front* of the buffer:
selections that *end* in `[lo,hi)`, by ascending end, equal ends in reverse insertion order -/
def bwdRange (sels : List TSel) (lo hi : Nat) : List TSel :=
  sortBy (·.e) ((sels.filter (fun t => decide (lo ≤ t.e) && decide (t.e < hi))).reverse)

inductive Dir | fwd | bwd
deriving DecidableEq, Repr

def Op.isEqualsSpecial : Op → Bool
  | .equals false false => true
  | _ => false

/-- the exact-offset shortcut of `next_textselection`: plain equality, and equality with the `all` modifier when there
is one reference (for a single reference `all` changes nothing) -/
def specialFor (op : Op) (refset : TSet) : Bool :=
  match op with
  | .equals false false => true
  | .equals true false => refset.items.length == 1
  | _ => false

/-- `init_textseliters`: the range and direction chosen for operator and reference set;
`n` is the text length -/
def plan (op : Op) (refset : TSet) (n : Nat) : Nat × Nat × Dir :=
  let textend := n + 1
  if op.neg then (0, textend, .fwd) else
  match refset.items with
  | [r] =>
    match op with
    | .embeds _ _ => (r.b, r.e + 1, .fwd)
    | .samebegin _ _ => (r.b, r.b + 1, .fwd)
    | .sameend _ _ => (r.e, r.e + 1, .bwd)
    | .after _ _ _ => (0, r.b + 1, .fwd)
    | .succeeds _ _ w => if w then (0, r.b + 1, .fwd) else (r.b, r.b + 1, .bwd)
    | .before _ _ (some l) => (r.e, max r.e (min (r.e + l + 1) textend), .fwd)
    | .before _ _ none => (r.e, max r.e textend, .fwd)
    | .precedes _ _ w => (r.e, if w then max (r.e + 1) textend else r.e + 1, .fwd)
    | .embedded _ _ (some l) => (r.b - l, r.b + 1, .fwd)
    | .embedded _ _ none => (0, r.b + 1, .fwd)
    | .overlaps _ _ => (0, r.e + 1, .fwd)
    | _ => (0, textend, .fwd)
  | _ => (0, textend, .fwd)

/-- the `Equals{all:false, negate:false}` shortcut: look every reference up by its exact offset -/
def equalsSpecial (refset : TSet) (sels : List TSel) : List TSel :=
  if refset.items.all (fun r => sels.contains r) then refset.items else []

/-- `FindTextSelectionsIter` run to completion. `BTreeMap::range` panics on an inverted range. -/
def find (op : Op) (refset : TSet) (sels : List TSel) (res : Res) : Out (List TSel) :=
  if specialFor op refset then .ok (equalsSpecial refset sels)
  else
    let p := plan op refset res.len
    if p.1 > p.2.1 then .panic "range start is greater than range end in BTreeMap"
    else
      let cands := match p.2.2 with
        | .fwd => fwdRange sels p.1 p.2.1
        | .bwd => bwdRange sels p.1 p.2.1
      .ok (cands.filter (fun t => setTest op refset t res && !(refset.items.contains t)))

/-- the members of a reference set, each once (the first occurrence stays) -/
def distinctItems : List TSel → List TSel
  | [] => []
  | x :: xs => x :: (distinctItems xs).filter (fun y => y != x)

def TSet.distinct (s : TSet) : TSet := ⟨distinctItems s.items, s.sorted⟩

/-- `TextResource::textselections_by_operator`: a selection that the reference set holds more than once counts once,
then the iterator runs -/
def search (op : Op) (refset : TSet) (sels : List TSel) (res : Res) : Out (List TSel) :=
  find op refset.distinct sels res

end Stam
