/-
  Prelude of the stam-rust model. Core Lean only (no Mathlib, no Std imports) so that the
  line-protocol driver can be linked as a `lean_exe`.
-/
namespace Stam

/-- The three ways a modelled Rust call can end. `panic` is every `unwrap`/`expect`/
`unreachable!`/slice-index/overflow abort; `err` carries the error class. -/
inductive Out (α : Type) where
  | ok (a : α)
  | err (cls : String)
  | panic (msg : String)
deriving Repr, DecidableEq

namespace Out
def isOk {α} : Out α → Bool
  | ok _ => true
  | _ => false
def isPanic {α} : Out α → Bool
  | panic _ => true
  | _ => false
def bind {α β} (x : Out α) (f : α → Out β) : Out β :=
  match x with
  | ok a => f a
  | err c => err c
  | panic m => panic m
def map {α β} (f : α → β) (x : Out α) : Out β :=
  match x with
  | ok a => ok (f a)
  | err c => err c
  | panic m => panic m
instance : Monad Out where
  pure := ok
  bind := bind
end Out

/-- An absolute, begin-aligned selection of text in code points: `[b, e)`. -/
structure TSel where
  b : Nat
  e : Nat
deriving DecidableEq, Repr

def TSel.WF (t : TSel) : Prop := t.b ≤ t.e
instance (t : TSel) : Decidable t.WF := by unfold TSel.WF; exact inferInstance

end Stam
