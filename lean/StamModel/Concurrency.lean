import StamModel.Prelude
/-
  C20 — concurrent readers (src/config.rs NoIncludeGuard / serialize_mode, src/json.rs, Serialize for
  TextResource / AnnotationDataSet).

  What the serialisation of a store or of one of its members does with the "no @include" state, as a
  transition system over *yield points* (every access to that state):
   * a thread is a list of actions; `enter`/`leave` are the guard around a member's own serialisation,
     `member f` is the serialisation of one member inside the current document (`f` = it has a stand-off file;
     only then is the mode read, so only then is it a yield point);
   * a trace is a list of thread numbers: entry `t` lets thread `t` perform its next yielding action and run on
     to its next yield point.
  Two semantics: `stepFixed` (the state is per thread: the code as it is) and `stepShared` (one cell shared by
  all threads: the code as it was; kept to show what the property excludes).
-/
namespace Stam.CC

inductive Act where
  | enter | leave | member (hasFile : Bool)
deriving Repr, DecidableEq

structure Thread where
  todo : List Act
  depth : Nat
  out : List Bool      -- per member written so far: true = @include reference
deriving Repr, DecidableEq

def Act.yields : Act → Bool
  | .member false => false
  | _ => true

/-- serialise the store: every member in document order -/
def storeProg (members : List Bool) : List Act := members.map .member
/-- serialise one member on its own -/
def memberProg (hasFile : Bool) : List Act := [.enter, .member hasFile, .leave]

/-- perform one action with the per-thread state -/
def Thread.act (cfgAllow : Bool) (t : Thread) (a : Act) : Thread :=
  match a with
  | .enter => { t with depth := t.depth + 1 }
  | .leave => { t with depth := t.depth - 1 }
  | .member f => { t with out := t.out ++ [f && cfgAllow && t.depth == 0] }

/-- run the non-yielding actions at the head of the to-do list -/
def Thread.settle (cfgAllow : Bool) : (fuel : Nat) → Thread → Thread
  | 0, t => t
  | fuel + 1, t =>
    match t.todo with
    | a :: rest => if a.yields then t else Thread.settle cfgAllow fuel (({ t with todo := rest }).act cfgAllow a)
    | [] => t

/-- one scheduled step of a thread: pass the yield point (perform the yielding action), run on to the next -/
def Thread.step (cfgAllow : Bool) (t : Thread) : Thread :=
  match t.todo with
  | [] => t
  | a :: rest =>
    let t' := ({ t with todo := rest }).act cfgAllow a
    Thread.settle cfgAllow rest.length t'

def Thread.start (cfgAllow : Bool) (prog : List Act) : Thread :=
  Thread.settle cfgAllow prog.length { todo := prog, depth := 0, out := [] }

/-- the code as it is: a step of thread `i` touches thread `i` only -/
def stepFixed (cfgAllow : Bool) (ts : List Thread) (i : Nat) : List Thread :=
  match ts[i]? with
  | none => ts
  | some t => ts.set i (t.step cfgAllow)

def runFixed (cfgAllow : Bool) (ts : List Thread) (trace : List Nat) : List Thread :=
  trace.foldl (stepFixed cfgAllow) ts

/-- a thread on its own: `n` steps -/
def Thread.steps (cfgAllow : Bool) : Nat → Thread → Thread
  | 0, t => t
  | n + 1, t => Thread.steps cfgAllow n (t.step cfgAllow)

/-! ### the code as it was: one shared cell -/

structure Shared where
  allow : Bool
  ts : List Thread
deriving Repr, DecidableEq

def actShared (s : Bool) (t : Thread) (a : Act) : Bool × Thread :=
  match a with
  | .enter => (false, t)
  | .leave => (true, t)
  | .member f => (s, { t with out := t.out ++ [f && s] })

def settleShared : (fuel : Nat) → Bool → Thread → Bool × Thread
  | 0, s, t => (s, t)
  | fuel + 1, s, t =>
    match t.todo with
    | a :: rest => if a.yields then (s, t) else
        let (s', t') := actShared s { t with todo := rest } a
        settleShared fuel s' t'
    | [] => (s, t)

def stepShared (st : Shared) (i : Nat) : Shared :=
  match st.ts[i]? with
  | none => st
  | some t =>
    match t.todo with
    | [] => st
    | a :: rest =>
      let (s', t') := actShared st.allow { t with todo := rest } a
      let (s'', t'') := settleShared rest.length s' t'
      { allow := s'', ts := st.ts.set i t'' }

def runShared (st : Shared) (trace : List Nat) : Shared := trace.foldl stepShared st

end Stam.CC
