import StamModel.Offset
/-
  C15 model: the textual layer of STAM CSV (src/csv.rs, src/types.rs):
  * `Display` / `TryFrom<&str>` for `Cursor` - the sign decides the alignment;
  * the ';'-separated columns of a complex selector: one position per (expanded) sub-selector in
    EVERY column, so that the reader can pick the i-th entry of each column.
  Decimal printing/parsing of integers is std and enters as parameters `showNat` / `parseNat`.
-/
namespace Stam.Csv

/-- `str::split(';')` -/
def splitSemi : List Char → List (List Char)
  | [] => [[]]
  | c :: cs =>
    if c = ';' then [] :: splitSemi cs
    else match splitSemi cs with
      | [] => [[c]]
      | x :: xs => (c :: x) :: xs

/-- what the writers produce for a complex selector: a ';' in front of every (expanded) entry -/
def packColumn (vals : List (List Char)) : List Char := vals.flatMap (fun v => ';' :: v)

/-- `Display for Cursor` -/
def showCursor (showNat : Nat → List Char) : Cursor → List Char
  | .b n => showNat n
  | .e z => if z = 0 then ['-', '0'] else if z < 0 then '-' :: showNat z.natAbs else showNat z.natAbs

/-- `TryFrom<&str> for Cursor` -/
def parseCursor (parseNat : List Char → Option Nat) (cs : List Char) : Out Cursor :=
  match cs with
  | '-' :: rest =>
    match parseNat rest with
    | some n => .ok (.e (-(n : Int)))
    | none => .err "InvalidCursor"
  | _ =>
    match parseNat cs with
    | some n => .ok (.b n)
    | none => .err "InvalidCursor"

/-- sub-selectors of a complex selector as the writers see them: a plain sub-selector is a group of
one entry, an internally range-compressed run is a group of several -/
abbrev Groups (α : Type) := List (List α)

/-- the fixed writer: within a group the entries are separated by ';' and the group is preceded by
one ';' - i.e. one position per expanded entry -/
def packGroups {α} (f : α → List Char) (gs : Groups α) : List Char :=
  gs.flatMap (fun g => match g with
    | [] => [';']
    | x :: xs => ';' :: f x ++ xs.flatMap (fun y => ';' :: f y))

end Stam.Csv
