import StamModel.Prelude
/-
  C17 — Web Annotation export (src/api/webanno.rs): how strings and data values become JSON text.

  * `escapeJson` is the escaping `json_str` applies (serde_json's string serialiser): the two-character escapes
    for quote, backslash, \b \f \n \r \t, `\u00XX` for the other control characters, everything else as is;
  * `renderValue` is `value_to_json` (strings and datetimes as JSON strings, null/booleans/integers as their
    literals, lists as arrays; floats keep the literal Rust's `Display` writes);
  * `parseString` / `parseValue` are a reader for that JSON subset, written from RFC 8259 (not from the exporter):
    they are the *specification* side of the round trip proved in Props/C17.

  Integer and float formatting are std (`showI`, literals): parameters.
-/
namespace Stam.WA

abbrev Str := List Char

def hexDigit (n : Nat) : Char := if n < 10 then Char.ofNat (48 + n) else Char.ofNat (87 + n)

/-- serde_json's escape of one character -/
def escapeChar (c : Char) : Str :=
  if c = '"' then ['\\', '"']
  else if c = '\\' then ['\\', '\\']
  else if c = '\x08' then ['\\', 'b']
  else if c = '\x0c' then ['\\', 'f']
  else if c = '\n' then ['\\', 'n']
  else if c = '\r' then ['\\', 'r']
  else if c = '\t' then ['\\', 't']
  else if c.toNat < 0x20 then ['\\', 'u', '0', '0', hexDigit (c.toNat / 16), hexDigit (c.toNat % 16)]
  else [c]

def escapeJson (s : Str) : Str := s.flatMap escapeChar

/-- `json_str`: the quoted literal -/
def jsonStr (s : Str) : Str := '"' :: escapeJson s ++ ['"']

/-! ## values -/

mutual
inductive WV where
  | null | bool (b : Bool) | int (n : Int) | str (s : Str) | lit (l : Str)   -- `lit`: a float, written as Display writes it
  | list (xs : WVs)
inductive WVs where
  | nil | cons (x : WV) (xs : WVs)
end

mutual
def renderValue (showI : Int → Str) : WV → Str
  | .null => ['n', 'u', 'l', 'l']
  | .bool true => ['t', 'r', 'u', 'e']
  | .bool false => ['f', 'a', 'l', 's', 'e']
  | .int n => showI n
  | .str s => jsonStr s
  | .lit l => l
  | .list xs => ['[', ' '] ++ renderElems showI xs ++ [' ', ']']
/-- elements joined by ", " -/
def renderElems (showI : Int → Str) : WVs → Str
  | .nil => []
  | .cons x .nil => renderValue showI x
  | .cons x (.cons y ys) => renderValue showI x ++ [',', ' '] ++ renderElems showI (.cons y ys)
end

/-! ## a reader for JSON strings and the value subset (RFC 8259) -/

def hexVal? (c : Char) : Option Nat :=
  if '0' ≤ c ∧ c ≤ '9' then some (c.toNat - 48)
  else if 'a' ≤ c ∧ c ≤ 'f' then some (c.toNat - 87)
  else if 'A' ≤ c ∧ c ≤ 'F' then some (c.toNat - 55)
  else none

/-- the characters of a JSON string up to the closing quote; control characters must be escaped
(surrogate pairs are not produced by the exporter; a `\u` escape in the surrogate range is rejected here) -/
def parseChars : Str → Option (Str × Str)
  | [] => none
  | '"' :: rest => some ([], rest)
  | '\\' :: '"' :: rest => (parseChars rest).map (fun (s, t) => ('"' :: s, t))
  | '\\' :: '\\' :: rest => (parseChars rest).map (fun (s, t) => ('\\' :: s, t))
  | '\\' :: '/' :: rest => (parseChars rest).map (fun (s, t) => ('/' :: s, t))
  | '\\' :: 'b' :: rest => (parseChars rest).map (fun (s, t) => ('\x08' :: s, t))
  | '\\' :: 'f' :: rest => (parseChars rest).map (fun (s, t) => ('\x0c' :: s, t))
  | '\\' :: 'n' :: rest => (parseChars rest).map (fun (s, t) => ('\n' :: s, t))
  | '\\' :: 'r' :: rest => (parseChars rest).map (fun (s, t) => ('\r' :: s, t))
  | '\\' :: 't' :: rest => (parseChars rest).map (fun (s, t) => ('\t' :: s, t))
  | '\\' :: 'u' :: a :: b :: c :: d :: rest =>
    match hexVal? a, hexVal? b, hexVal? c, hexVal? d with
    | some a, some b, some c, some d =>
      let n := ((a * 16 + b) * 16 + c) * 16 + d
      if 0xD800 ≤ n ∧ n ≤ 0xDFFF then none else (parseChars rest).map (fun (s, t) => (Char.ofNat n :: s, t))
    | _, _, _, _ => none
  | '\\' :: _ => none
  | c :: rest => if c.toNat < 0x20 then none else (parseChars rest).map (fun (s, t) => (c :: s, t))

def parseString : Str → Option (Str × Str)
  | '"' :: rest => parseChars rest
  | _ => none

def skipWs : Str → Str
  | [] => []
  | c :: cs => if c = ' ' ∨ c = '\t' ∨ c = '\n' ∨ c = '\r' then skipWs cs else c :: cs

/-- what a JSON reader sees -/
inductive J where
  | null | bool (b : Bool) | num (lit : Str) | str (s : Str) | arr (xs : List J)
deriving Repr

def isNumChar (c : Char) : Bool := c.isDigit ∨ c = '-' ∨ c = '+' ∨ c = '.' ∨ c = 'e' ∨ c = 'E'

/-- the longest run of number characters (the literal is kept; what number it denotes is std's business) -/
def spanNum : Str → Str × Str
  | [] => ([], [])
  | c :: cs => if isNumChar c then let (a, b) := spanNum cs; (c :: a, b) else ([], c :: cs)

mutual
def parseValue : Nat → Str → Option (J × Str)
  | 0, _ => none
  | fuel + 1, s =>
    match skipWs s with
    | 'n' :: 'u' :: 'l' :: 'l' :: r => some (.null, r)
    | 't' :: 'r' :: 'u' :: 'e' :: r => some (.bool true, r)
    | 'f' :: 'a' :: 'l' :: 's' :: 'e' :: r => some (.bool false, r)
    | '"' :: r => (parseChars r).map (fun (x, t) => (.str x, t))
    | '[' :: r =>
      match skipWs r with
      | ']' :: r' => some (.arr [], r')
      | _ => (parseElems fuel r).map (fun (xs, t) => (.arr xs, t))
    | c :: r =>
      if isNumChar c then let (a, b) := spanNum (c :: r); some (.num a, b) else none
    | [] => none
/-- one or more values separated by commas, up to and including the closing bracket -/
def parseElems : Nat → Str → Option (List J × Str)
  | 0, _ => none
  | fuel + 1, s =>
    match parseValue fuel s with
    | none => none
    | some (x, r) =>
      match skipWs r with
      | ',' :: r' => (parseElems fuel r').map (fun (xs, t) => (x :: xs, t))
      | ']' :: r' => some ([x], r')
      | _ => none
end

-- the JSON reading a value is meant to have
mutual
def toJ (showI : Int → Str) : WV → J
  | .null => .null
  | .bool b => .bool b
  | .int n => .num (showI n)
  | .str s => .str s
  | .lit l => .num l
  | .list xs => .arr (toJs showI xs)
def toJs (showI : Int → Str) : WVs → List J
  | .nil => []
  | .cons x xs => toJ showI x :: toJs showI xs
end

mutual
def WV.size : WV → Nat
  | .list xs => 1 + xs.size
  | _ => 1
def WVs.size : WVs → Nat
  | .nil => 1
  | .cons x xs => 1 + x.size + xs.size
end

/-! ## IRIs (`is_iri`, `into_iri`) -/

def invalidInIri (c : Char) : Bool := c = ' ' ∨ c = '\t' ∨ c = '\n' ∨ c = '"'

def schemeOf : Str → Option Str
  | [] => none
  | c :: cs => if c = ':' then some [] else (schemeOf cs).map (c :: ·)

def isIri (s : Str) : Bool :=
  match schemeOf s with
  | none => false
  | some sch =>
    !s.any invalidInIri &&
      (sch = ['h', 't', 't', 'p'] || sch = ['h', 't', 't', 'p', 's'] || sch = ['u', 'r', 'n'] || sch = ['f', 'i', 'l', 'e'] || sch = ['_'])

def intoIri (s prefix_ : Str) : Str :=
  if isIri s then s else
    let p := if prefix_.isEmpty then ['_', ':'] else prefix_
    let clean := s.map (fun c => if invalidInIri c then '-' else c)
    match p.getLast? with
    | some '/' | some '#' | some ':' => p ++ clean
    | _ => p ++ ['/'] ++ clean

end Stam.WA
