import StamModel.Prelude
/-
  C08 — the nested-loop evaluation state of `QueryIter` (src/api/query.rs): `next`, `init_all_states`,
  `init_state`, `next_state`, `estimate_stacksize`, for a query with a chain of sub-queries (one sub-query per level).

  * the *result iterators* are abstracted to what they yield: the iterator of the top-level query yields the roots of
    a forest; the iterator of the query at level k+1, created while the state of level k holds the item `t`, yields
    the children of `t` (that is what evaluating the sub-query with the outer variable bound gives — the harness
    computes the forest exactly so, level by level, with `Query::bind_from_result`);
  * the stack is kept top first; `path` is the length of `querypath` (all indices are 0 for a chain);
  * `opt` holds the OPTIONAL flag of each level (level 1 = the top-level query);
  * the machine is modelled as the code is, including the `done` flag: a state marked `done` is *dropped* by
    `next_state` (`if state.done { continue; }`) without `querypath` being popped.

  `nested` is the specification: nested iteration over the forest, an OPTIONAL level without results leaving the
  outer row alone.
-/
namespace Stam.QI

inductive Tree (α : Type) where
  | node : α → List (Tree α) → Tree α

def Tree.label {α} : Tree α → α | .node x _ => x
def Tree.kids {α} : Tree α → List (Tree α) | .node _ cs => cs

structure St (α : Type) where
  iter : List (Tree α)
  result : Option (Tree α)
  done : Bool

inductive Status where
  | empty | newState | noNewState | ignore | allDone | invalid
deriving DecidableEq, Repr

/-- `parentstate.done = true` for the last state on the stack -/
def markDone {α} : List (St α) → List (St α)
  | [] => []
  | s :: rest => { s with done := true } :: rest

/-- `QueryIter::next_state`; `opt` is indexed by level (0-based: `opt[p - 1]` is the flag of the query at path length `p`) -/
def nextState {α} (opt : List Bool) : List (St α) → Nat → List (St α) × Nat × Status
  | [], p => ([], p, .allDone)
  | s :: rest, p =>
    if s.done then nextState opt rest p
    else
      let optional := opt.getD (p - 1) false
      let p' := p - 1
      match s.iter with
      | x :: it => ({ s with iter := it, result := some x } :: rest, p' + 1, .newState)
      | [] =>
        if p' ≥ 1 ∧ optional ∧ s.result.isNone then (markDone rest, p', .ignore)
        else nextState opt rest p'

/-- `estimate_stacksize` -/
def est (n path : Nat) : Nat := if path = 0 then 1 else if path < n then path + 1 else 1

/-- `init_state` for the query at path length `path` (already pushed): its iterator is built from the result held by
the state one level up; a missing state is the `VariableNotFoundError` that ends the iteration -/
def initState {α} (opt : List Bool) (roots : List (Tree α)) (stack : List (St α)) (path : Nat) : List (St α) × Nat × Status :=
  let it? : Option (List (Tree α)) :=
    if path = 1 then some roots
    else match stack.reverse[path - 2]? with
      | some st => st.result.map Tree.kids
      | none => none
  match it? with
  | none => (stack, path, .invalid)
  | some it => nextState opt ({ iter := it, result := none, done := false } :: stack) path

/-- `init_all_states` (the loop runs as long as states are missing; `fuel` bounds it) -/
def initAll {α} (n : Nat) (opt : List Bool) (roots : List (Tree α)) : Nat → List (St α) → Nat → List (St α) × Nat × Status
  | 0, stack, path => (stack, path, .invalid)
  | fuel + 1, stack, path =>
    if stack.length < est n path then
      if (stack.head?.map (·.done)) = some true then (stack, path, .ignore)
      else
        match initState opt roots stack (path + 1) with
        | (stack', path', .newState) => initAll n opt roots fuel stack' path'
        | r => r
    else (stack, path, .newState)

/-- `build_result`: the items held by the states, outermost first -/
def row {α} (stack : List (St α)) : List α := stack.reverse.filterMap (fun s => s.result.map Tree.label)

/-- number of nodes down to depth `d` -/
def count {α} : Nat → Tree α → Nat
  | 0, _ => 1
  | d + 1, t => 1 + (t.kids.map (count d)).sum

def countForest {α} (d : Nat) (f : List (Tree α)) : Nat := (f.map (count d)).sum

/-- what the iterators on the stack can still yield, counted down to the last level (`n` levels) -/
def nu {α} (n : Nat) : List (St α) → Nat
  | [] => 0
  | s :: rest => countForest (n - (rest.length + 1)) s.iter + nu n rest

/-- a bound on the number of turns of the loop in `init_all_states` from this stack -/
def mu {α} (n : Nat) (roots : List (Tree α)) : List (St α) → Nat
  | [] => countForest (n - 1) roots
  | s :: rest => (match s.result with | some t => countForest (n - (rest.length + 2)) t.kids | none => 0) + nu n (s :: rest)

/-- `Iterator::next` of `QueryIter`, iterated until the first `None` (`fuel` bounds the number of rows) -/
def run {α} (n : Nat) (opt : List Bool) (roots : List (Tree α)) : Nat → List (St α) → Nat → Status → List (List α)
  | 0, _, _, _ => []
  | fuel + 1, stack, path, status =>
    if status = .allDone then []
    else
      match initAll n opt roots (mu n roots stack + n + 2) stack path with
      | (_, _, .allDone) => []
      | (_, _, .noNewState) => []
      | (_, _, .invalid) => []
      | (stack', path', _) =>
        let (stack'', path'', status'') := nextState opt stack' path'
        row stack' :: run n opt roots fuel stack'' path'' status''

/-- the rows of a query with `n` levels over the forest `roots` -/
def rows {α} (n : Nat) (opt : List Bool) (roots : List (Tree α)) : List (List α) :=
  run n opt roots (countForest n roots + 2) [] 0 .empty

/-! ## specification: nested iteration -/

/-- the rows under the item `t` when `flags` are the OPTIONAL flags of the levels below it -/
def rowsAt {α} : List Bool → Tree α → List (List α)
  | [], t => [[t.label]]
  | o :: os, t =>
    let inner := t.kids.flatMap (rowsAt os)
    if inner.isEmpty then (if o then [[t.label]] else []) else inner.map (t.label :: ·)

/-- `opt` has one flag per level; the flag of the top level has no meaning -/
def nested {α} (opt : List Bool) (roots : List (Tree α)) : List (List α) := roots.flatMap (rowsAt opt.tail)

end Stam.QI
