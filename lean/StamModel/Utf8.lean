import StamModel.Prelude
/-
  C12 model: code point <-> UTF-8 byte position conversion with a milestone / position index.
    TextResource::utf8byte, utf8byte_to_charpos     src/resources.rs
    sub-selection variants                          src/api/text.rs
  A text is the list of the UTF-8 widths (1..4) of its code points. The position index is any list
  of (charpos, bytepos) entries; byte2charmap any list of (bytepos, charpos) entries.
-/
namespace Stam

/-- byte offset of code point position `p` (naive count) -/
def prefixB (ws : List Nat) (p : Nat) : Nat := (ws.take p).sum

/-- `&text[byte..]` as remaining widths; `none` when `byte` is not a char boundary or past the end
(where the Rust slice index panics) -/
def dropBytes : List Nat → Nat → Option (List Nat)
  | ws, 0 => some ws
  | [], _ + 1 => none
  | w :: ws, k + 1 => if k + 1 ≥ w then dropBytes ws (k + 1 - w) else none

/-- `textslice.char_indices().enumerate()` looking for the `k`-th code point: its byte offset -/
def charScan (ws : List Nat) (k : Nat) : Option Nat :=
  if k < ws.length then some (prefixB ws k) else none

/-- `textslice.char_indices()` looking for byte offset `byte`: the index of the code point that
starts there -/
def byteScan : List Nat → Nat → Nat → Option Nat
  | [], _, _ => none
  | w :: ws, byte, i => if byte = 0 then some i else if byte < w then none else byteScan ws (byte - w) (i + 1)

/-- `BTreeMap::range(0..key).next_back()`: the entry with the greatest key below `key` -/
def prevBelow (idx : List (Nat × Nat)) (key : Nat) : Option (Nat × Nat) :=
  idx.foldl (fun acc e => if e.1 < key then
      (match acc with
       | none => some e
       | some a => if a.1 < e.1 then some e else some a)
    else acc) none

/-- `TextResource::utf8byte` -/
def utf8byte (idx : List (Nat × Nat)) (ws : List Nat) (p : Nat) : Out Nat :=
  match idx.find? (fun e => e.1 = p) with
  | some e => .ok e.2
  | none =>
    match prevBelow idx p with
    | some (bpos, bbyte) =>
      match dropBytes ws bbyte with
      | none => .panic "byte index is not a char boundary"
      | some rest =>
        if ws.length = p then .ok (bbyte + rest.sum)
        else match charScan rest (p - bpos) with
          | some off => .ok (bbyte + off)
          | none => .err "CursorOutOfBounds"
    | none =>
      if ws.length = p then .ok ws.sum
      else match charScan ws p with
        | some off => .ok off
        | none => .err "CursorOutOfBounds"

/-- `TextResource::utf8byte_to_charpos`; `b2c` holds (bytepos, charpos) entries -/
def utf8byteToCharpos (b2c : List (Nat × Nat)) (ws : List Nat) (byte : Nat) : Out Nat :=
  match b2c.find? (fun e => e.1 = byte) with
  | some e => .ok e.2
  | none =>
    match prevBelow b2c byte with
    | some (bbyte, bchar) =>
      match dropBytes ws bbyte with
      | none => .panic "byte index is not a char boundary"
      | some rest =>
        if bbyte + rest.sum = byte then .ok ws.length
        else match byteScan rest (byte - bbyte) 0 with
          | some i => .ok (bchar + i)
          | none => .err "CursorOutOfBounds"
    | none =>
      if ws.sum = byte then .ok ws.length
      else match byteScan ws byte 0 with
        | some i => .ok i
        | none => .err "CursorOutOfBounds"

/-- sub-selection `[b,e)`: `utf8byte(rel)` relative to the selection's own text -/
def utf8byteSub (idx : List (Nat × Nat)) (ws : List Nat) (b e rel : Nat) : Out Nat :=
  if rel > e - b then .err "CursorOutOfBounds"
  else match utf8byte idx ws b, utf8byte idx ws (b + rel) with
    | .ok bb, .ok x => .ok (x - bb)
    | .panic m, _ => .panic m
    | _, .panic m => .panic m
    | .err c, _ => .err c
    | _, .err c => .err c

/-- sub-selection `[b,e)`: `utf8byte_to_charpos(bytes)` relative to the selection's own text -/
def utf8byteToCharposSub (idx b2c : List (Nat × Nat)) (ws : List Nat) (b e byte : Nat) : Out Nat :=
  match utf8byte idx ws b, utf8byte idx ws e with
  | .ok bb, .ok eb =>
    if byte > eb - bb then .err "CursorOutOfBounds"
    else match utf8byteToCharpos b2c ws (bb + byte) with
      | .ok c => .ok (c - b)
      | .err c => .err c
      | .panic m => .panic m
  | .panic m, _ => .panic m
  | _, .panic m => .panic m
  | .err c, _ => .err c
  | _, .err c => .err c

end Stam
