import StamModel.Store
/-
  C01/C05 — how the members of a complex selector are stored and handed out again
  (src/annotationstore.rs `AnnotationStore::subselectors`, the loop that folds neighbours into internal ranged
  selectors; src/selector.rs `SelectorIter`, `get_internal_ranged_item`).

  `fold` is the loop over the (already ordered) members: a member joins the one stored last when both are text selectors
  on consecutive text selections of one resource, both begin-aligned; or annotation selectors without offset on
  consecutive annotations; or annotation selectors with a begin-aligned offset covering the whole text of consecutive
  annotations. `expand` is what iteration yields for a stored member: a range hands out its members one by one, with
  begin-aligned offsets.

  Parameters (facts about the store the loop consults):
   * `whole a r t`  — the text selection `(r, t)` of a member `AnnotationSelector(a, Some((r, t, _)))` covers exactly
     the text of annotation `a` (`offset_with_mode(.., BeginEnd)` gives `0 .. -0`);
   * `tsel a` — the resource and text selection of annotation `a`'s own target, which `get_internal_ranged_item`
     reads when it hands out a member of a range with text.
-/
namespace Stam.Ranged
open Stam

/-- a stored member of a complex selector -/
inductive Sel where
  | text (r t : Nat) (m : OffsetMode)
  | ann (a : Nat)
  | annoff (a r t : Nat) (m : OffsetMode)
  | res (r : Nat)
  | set (s : Nat)
  | key (s k : Nat)
  | data (s d : Nat)
  | rtext (r b e : Nat)                    -- RangedTextSelector { resource, begin, end }, `end` inclusive
  | rann (b e : Nat) (withText : Bool)     -- RangedAnnotationSelector { begin, end, with_text }
deriving Repr, DecidableEq

def Sel.isPlain : Sel → Bool
  | .rtext .. | .rann .. => false
  | _ => true

/-- the `match (&last, &selector)` of the loop: what replaces `last` when `s` joins it -/
def join (whole : Nat → Nat → Nat → Bool) (last s : Sel) : Option Sel :=
  match last, s with
  | .text r t .bb, .text r2 t2 .bb => if r = r2 ∧ t2 = t + 1 then some (.rtext r t t2) else none
  | .rtext r b e, .text r2 t2 .bb => if r = r2 ∧ t2 = e + 1 then some (.rtext r b t2) else none
  | .ann a, .ann a2 => if a2 = a + 1 then some (.rann a a2 false) else none
  | .rann b e false, .ann a => if a = e + 1 then some (.rann b a false) else none
  | .annoff a r t .bb, .annoff a2 r2 t2 .bb =>
    if a2 = a + 1 ∧ whole a r t ∧ whole a2 r2 t2 then some (.rann a a2 true) else none
  | .rann b e true, .annoff a r t .bb => if a = e + 1 ∧ whole a r t then some (.rann b a true) else none
  | _, _ => none

/-- one turn of the loop: `results.last_mut()` is replaced, or the member is pushed -/
def foldStep (whole : Nat → Nat → Nat → Bool) (acc : List Sel) (s : Sel) : List Sel :=
  match acc.getLast? with
  | none => [s]
  | some last =>
    match join whole last s with
    | some sub => acc.dropLast ++ [sub]
    | none => acc ++ [s]

/-- the loop of `subselectors` over the ordered members -/
def fold (whole : Nat → Nat → Nat → Bool) (l : List Sel) : List Sel := l.foldl (foldStep whole) []

/-- `get_internal_ranged_item` for a range of annotations with text -/
def annItem (tsel : Nat → Option (Nat × Nat)) (a : Nat) : Sel :=
  match tsel a with
  | some (r, t) => .annoff a r t .bb
  | none => .ann a

/-- what iteration yields for one stored member -/
def expand (tsel : Nat → Option (Nat × Nat)) : Sel → List Sel
  | .rtext r b e => (List.range (e + 1 - b)).map (fun i => .text r (b + i) .bb)
  | .rann b e false => (List.range (e + 1 - b)).map (fun i => .ann (b + i))
  | .rann b e true => (List.range (e + 1 - b)).map (fun i => annItem tsel (b + i))
  | s => [s]

def expandAll (tsel : Nat → Option (Nat × Nat)) (l : List Sel) : List Sel := l.flatMap (expand tsel)

end Stam.Ranged
