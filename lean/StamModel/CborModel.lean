/-
  C11 model: minicbor's derive scheme. A struct (or enum variant) is encoded as a collection of
  (index, value) entries, one per field carrying `#[n(k)]`; decoding looks every field up by its
  index; a field marked `#[cbor(skip)]` is not written and comes back as its `Default`.
  The schema itself (which field has which index) is GENERATED from /repo/src by the translator.
-/
namespace Stam.Cbor

structure FieldS where
  name : String
  idx : Option Nat
  skip : Bool
  encWith : Option String
  decWith : Option String
  ty : String
deriving Repr, DecidableEq

structure VariantS where
  name : String
  idx : Option Nat
  fields : List FieldS
deriving Repr, DecidableEq

structure TypeS where
  name : String
  file : String
  transparent : Bool
  fields : List FieldS
  variants : List VariantS
deriving Repr, DecidableEq

/-- indices of the fields that are actually written -/
def writtenIdx (fs : List FieldS) : List Nat := (fs.filter (fun f => !f.skip)).filterMap (·.idx)

/-- a field list is well-formed when every written field has an index, the indices are pairwise
distinct, and a custom codec is given for both directions or for neither -/
def fieldsWF (fs : List FieldS) : Bool :=
  fs.all (fun f => f.skip || f.idx.isSome) &&
  (writtenIdx fs).Nodup &&
  fs.all (fun f => f.encWith.isSome == f.decWith.isSome)

/-- the only fields that may be left out of the binary format: run-time state that is re-created on load -/
def allowedSkips : List (String × String) :=
  [("TextResource", "changed"), ("AnnotationDataSet", "changed"), ("AnnotationStore", "changed"),
   ("AnnotationSubStore", "changed")]

def TypeS.wf (t : TypeS) : Bool :=
  fieldsWF t.fields &&
  t.fields.all (fun f => !f.skip || allowedSkips.contains (t.name, f.name)) &&
  t.variants.all (fun v => v.idx.isSome && fieldsWF v.fields && v.fields.all (fun f => !f.skip)) &&
  (t.variants.filterMap (·.idx)).Nodup

/-! ### generic derive semantics over an abstract value type -/

variable {V : Type}

/-- `encode`: one entry per written field -/
def encodeFields (fs : List FieldS) (vals : List V) : List (Nat × V) :=
  (fs.zip vals).filterMap (fun (f, v) => if f.skip then none else f.idx.map (fun i => (i, v)))

def lookupIdx (enc : List (Nat × V)) (i : Nat) : Option V := (enc.find? (fun e => e.1 == i)).map (·.2)

/-- `decode`: every field by its index; skipped fields get the default -/
def decodeFields (fs : List FieldS) (enc : List (Nat × V)) (dflt : V) : List (Option V) :=
  fs.map (fun f => if f.skip then some dflt else f.idx.bind (lookupIdx enc))

end Stam.Cbor
