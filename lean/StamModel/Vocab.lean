import StamModel.Store
/-
  C10 — one annotation dataset as a vocabulary (src/annotationdataset.rs): its keys, its data items and the index
  from keys to data (`key_data_map`, a `RelationMap`, src/store.rs), under

  * `insert_data(id, key, value, safety)`,
  * removal of a data item (`StoreFor<AnnotationData>::remove`: the `preremove` callback takes the item out of the
    index) and of a key with its data (`AnnotationStore::remove_key`, the part inside the dataset),
  * `Storable::merge` of another dataset (a second document that declares the same dataset).

  The store model (Store.lean) derives "the data of a key" from the items; this model keeps the index the code keeps
  and Props/C10Vocab.lean proves that it stays exact, whatever the operations.
  Values are their canonical renderings (comparison of typed values is DataValue.lean's subject).
  Not modelled: errors of `insert_data` for requests without a key, the `changed` flag, public-identifier maps (an
  identifier is found by a scan here; that the maps agree with a scan is C03's subject).
-/
namespace Stam.Vocab
open Stam

structure Datum where
  id : Option String
  key : Nat
  val : String
deriving Repr, DecidableEq

structure DSet where
  keys : List (Option String) := []
  data : List (Option Datum) := []
  idx : List (List Nat) := []
deriving Repr, DecidableEq

/-- `RelationMap::get`, an absent entry read as empty -/
def idxGet (ix : List (List Nat)) (k : Nat) : List Nat := (ix[k]?).getD []

/-- `RelationMap::insert` on one entry: nothing when the last element is `y`; pushed when the last element is smaller;
otherwise (an older item gains a relation after a newer one did) `binary_search` and insertion where it belongs -/
def relInsert (l : List Nat) (y : Nat) : List Nat :=
  match l.getLast? with
  | none => [y]
  | some last =>
    if last = y then l
    else if y < last then (if y ∈ l then l else l.takeWhile (· < y) ++ y :: l.dropWhile (· < y))
    else l ++ [y]

/-- `RelationMap::insert`: the vector of entries grows to reach `k` -/
def idxInsert (ix : List (List Nat)) (k y : Nat) : List (List Nat) :=
  (ix ++ List.replicate (k + 1 - ix.length) []).set k (relInsert (idxGet ix k) y)

/-- `RelationMap::remove`: the first occurrence -/
def idxRemove (ix : List (List Nat)) (k y : Nat) : List (List Nat) := ix.set k ((idxGet ix k).erase y)

/-- `RelationMap::remove_all` -/
def idxClear (ix : List (List Nat)) (k : Nat) : List (List Nat) := ix.set k []

def DSet.keyByName (s : DSet) (name : String) : Option Nat := findIdx s.keys (fun k => k == name)
def DSet.dataById (s : DSet) (id : String) : Option Nat := findIdx s.data (fun d => d.id == some id)

/-- `data_by_value`: the first item listed under the key that carries the value. (The code `expect`s every listed
handle to be live; Props/C10Vocab `listed_is_live` shows it is.) -/
def DSet.dataByValue (s : DSet) (k : Nat) (v : String) : Option Nat :=
  (idxGet s.idx k).find? (fun d => match getLive s.data d with | some x => x.val == v | none => false)

/-- `data_by_key` -/
def DSet.dataByKey (s : DSet) (k : Nat) : List Nat := idxGet s.idx k

/-- `StoreFor::insert` of a new item and the `inserted` callback -/
def DSet.push (s : DSet) (x : Datum) : Nat × DSet :=
  (s.data.length, { s with data := s.data ++ [some x], idx := idxInsert s.idx x.key s.data.length })

/-- `insert_data(id, key, value, safety)`, the key given by name -/
def DSet.insertData (s : DSet) (id : Option String) (key : String) (v : String) (safety : Bool) : Nat × DSet :=
  match id.bind s.dataById with
  | some d => (d, s)
  | none =>
    match s.keyByName key with
    | some k =>
      match (if id.isNone && safety then s.dataByValue k v else none) with
      | some d => (d, s)
      | none => s.push ⟨id, k, v⟩
    | none => ({ s with keys := s.keys ++ [some key] } : DSet).push ⟨id, s.keys.length, v⟩

/-- removal of one data item -/
def DSet.removeData (s : DSet) (d : Nat) : Option DSet :=
  match getLive s.data d with
  | none => none
  | some x => some { s with data := setAt s.data d none, idx := idxRemove s.idx x.key d }

/-- the items of a list removed one after another (those that are gone already are skipped) -/
def DSet.removeAll (s : DSet) : List Nat → DSet
  | [] => s
  | d :: r => ((s.removeData d).getD s).removeAll r

/-- removal of a key: its data first (`data_by_key(..).clone()`, one `remove_data` each), then the key, whose
`preremove` empties its index entry -/
def DSet.removeKey (s : DSet) (k : Nat) : Option DSet :=
  match getLive s.keys k with
  | none => none
  | some _ =>
    let s1 := s.removeAll (s.dataByKey k)
    some { s1 with keys := setAt s1.keys k none, idx := idxClear s1.idx k }

/-! ### merge -/

/-- `self.insert(key)` in merge mode: a name that is there gives the handle it has -/
def DSet.mergeKey (s : DSet) (name : String) : Nat × DSet :=
  match s.keyByName name with
  | some k => (k, s)
  | none => (s.keys.length, { s with keys := s.keys ++ [some name] })

/-- the keys of the other set, slot by slot: the handle each has (or gets) here -/
def DSet.mergeKeys (s : DSet) : List (Option String) → List (Option Nat) × DSet
  | [] => ([], s)
  | none :: r => let p := s.mergeKeys r; (none :: p.1, p.2)
  | some n :: r => let q := s.mergeKey n; let p := q.2.mergeKeys r; (some q.1 :: p.1, p.2)

/-- one data item of the other set, its key already mapped to a handle of this set -/
def DSet.mergeDatum (s : DSet) (x : Datum) : DSet :=
  match x.id with
  | some id =>
    match s.dataById id with
    | some d =>
      match getLive s.data d with
      | some old =>
        if old = x then s
        else
          -- the item is overwritten; the index follows it to its new key
          { s with data := setAt s.data d (some x),
                   idx := if old.key = x.key then s.idx else idxInsert (idxRemove s.idx old.key d) x.key d }
      | none => s
    | none => (s.push x).2
  | none => if (s.dataByValue x.key x.val).isSome then s else (s.push x).2

/-- the data of the other set in its order; `false` = refused in the middle (a key handle that the other set does not
have), with what was merged so far kept, as the code does -/
def DSet.mergeData (s : DSet) (kmap : List (Option Nat)) : List (Option Datum) → Bool × DSet
  | [] => (true, s)
  | none :: r => s.mergeData kmap r
  | some x :: r =>
    match (kmap[x.key]?).join with
    | none => (false, s)
    | some k => (s.mergeDatum { x with key := k }).mergeData kmap r

/-- `Storable::merge` for `AnnotationDataSet` -/
def DSet.merge (s other : DSet) : Bool × DSet :=
  let p := s.mergeKeys other.keys
  p.2.mergeData p.1 other.data

/-! ### operation sequences (two registers: the dataset, and a second one to merge into it) -/

inductive Op where
  | ins (reg : Bool) (id : Option String) (key val : String) (safety : Bool)
  | rmData (reg : Bool) (d : Nat)
  | rmKey (reg : Bool) (k : Nat)
  | merge
deriving Repr

def step (p : DSet × DSet) : Op → DSet × DSet
  | .ins false id k v sf => ((p.1.insertData id k v sf).2, p.2)
  | .ins true id k v sf => (p.1, (p.2.insertData id k v sf).2)
  | .rmData false d => ((p.1.removeData d).getD p.1, p.2)
  | .rmData true d => (p.1, (p.2.removeData d).getD p.2)
  | .rmKey false k => ((p.1.removeKey k).getD p.1, p.2)
  | .rmKey true k => (p.1, (p.2.removeKey k).getD p.2)
  | .merge => ((p.1.merge p.2).2, {})

def run (ops : List Op) : DSet × DSet := ops.foldl step ({}, {})

end Stam.Vocab
