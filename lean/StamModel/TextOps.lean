import StamModel.Utf8
/-
  C07 model: FindTextIter, SplitTextIter, trim_text, SegmentationIter (src/api/text.rs,
  src/api/resources.rs). Texts are `List Char`; byte positions are prefix sums of `Char.utf8Size`.
  `str::find` / `str::split` are modelled by the naive leftmost search `findFrom`.
-/
namespace Stam

/-- `haystack.find(needle)`: index (in code points, counted from `i`) of the leftmost occurrence -/
def findFrom (needle : List Char) : List Char → Nat → Option Nat
  | [], i => if needle.isEmpty then some i else none
  | c :: cs, i => if needle.isPrefixOf (c :: cs) then some i else findFrom needle cs (i + 1)

def widths (cs : List Char) : List Nat := cs.map Char.utf8Size
def bytesOf (cs : List Char) : Nat := (widths cs).sum

/-- `FindTextIter` restricted to `[b,e)` of `text`, with its byte arithmetic: the match is found
as a byte offset in the sub-slice, shifted by the sub-slice's byte offset and converted back with
`utf8byte_to_charpos`; the next search starts where this match ended. -/
def findIter (fuel : Nat) (b2c : List (Nat × Nat)) (needle text : List Char) (b e : Nat) : Out (List (Nat × Nat)) :=
  match fuel with
  | 0 => .ok []
  | fuel + 1 =>
    if needle.isEmpty then .ok [] else
    if b > e ∨ e > text.length then .ok [] else      -- text_by_offset fails: the iterator ends
    let sub := (text.drop b).take (e - b)
    match findFrom needle sub 0 with
    | none => .ok []
    | some k =>
      let ws := widths text
      let beginbyte := prefixB ws b
      let foundbyte := bytesOf (sub.take k)
      let endbyte := foundbyte + bytesOf needle
      match utf8byteToCharpos b2c ws (beginbyte + foundbyte), utf8byteToCharpos b2c ws (beginbyte + endbyte) with
      | .ok nb, .ok ne =>
        match findIter fuel b2c needle text ne e with
        | .ok rest => .ok ((nb, ne) :: rest)
        | .err c => .err c
        | .panic m => .panic m
      | _, _ => .panic "utf-8 byte must resolve to valid charpos"

/-- the same search stated on code points only (the specification) -/
def findSpec (fuel : Nat) (needle text : List Char) (b e : Nat) : List (Nat × Nat) :=
  match fuel with
  | 0 => []
  | fuel + 1 =>
    if needle.isEmpty then [] else
    if b > e ∨ e > text.length then [] else
    match findFrom needle ((text.drop b).take (e - b)) 0 with
    | none => []
    | some k => (b + k, b + k + needle.length) :: findSpec fuel needle text (b + k + needle.length) e

/-- `SplitTextIter` over `hay` (the searched sub-text) that starts at absolute position `pos`:
the pieces between consecutive leftmost occurrences of the delimiter -/
def splitIter (fuel : Nat) (delim hay : List Char) (pos : Nat) : List (Nat × Nat) :=
  match fuel with
  | 0 => [(pos, pos + hay.length)]
  | fuel + 1 =>
    match findFrom delim hay 0 with
    | none => [(pos, pos + hay.length)]
    | some k => (pos, pos + k) :: splitIter fuel delim (hay.drop (k + delim.length)) (pos + k + delim.length)

/-- `trim_text`: drop leading trimmable code points, then trailing ones among what is left -/
def trimRange (p : Char → Bool) (text : List Char) (b e : Nat) : Nat × Nat :=
  let sub := (text.drop b).take (e - b)
  let lead := (sub.takeWhile p).length
  let rest := sub.drop lead
  let trail := (rest.reverse.takeWhile p).length
  (b + lead, e - trail)

/-- `SegmentationIter` over `[b,e)`; `cuts` are the index positions in ascending order at which
some known selection begins or ends -/
def segments : List Nat → Nat → Nat → List (Nat × Nat)
  | [], cur, e => if cur < e then [(cur, e)] else []
  | p :: ps, cur, e =>
    if cur ≥ e then []
    else if p > cur then
      (if p > e then [(cur, e)] else (cur, p) :: segments ps p e)
    else segments ps cur e

end Stam
