/-
  C07 — `find_text_regex` with several expressions (src/api/text.rs `FindRegexIter::next`): the matches of the
  expressions, each found by the regex library on the plain text, are merged into one stream in the order they are found
  in the text; with `allow_overlap = false` the buffered matches of the other expressions that begin inside the match just
  reported are discarded.

  The state is, per expression (keyed by its index), the matches it still has to give, in the order its iterator gives
  them (the head is the buffered `nextmatches[i]`, the tail what `matchiters[i]` will yield). The regex library's matching
  is a parameter: the lists are what it returns. A run is written as events: a match reported, or a match discarded
  because of a reported one.
-/
namespace Stam.RX

structure M where
  b : Nat
  e : Nat
deriving Repr, DecidableEq

inductive Ev where
  | emit (i : Nat) (m : M)
  | drop (j : Nat) (m2 : M) (i : Nat) (m : M)
deriving Repr, DecidableEq

/-- `m2.begin() >= m.begin() && m2.begin() < m.end()` -/
def inside (m m2 : M) : Bool := m.b ≤ m2.b && m2.b < m.e

abbrev St := List (Nat × List M)

/-- "find the best next match": the first buffer whose match begins earliest -/
def best : St → Option (Nat × M)
  | [] => none
  | (_, []) :: r => best r
  | (k, m :: _) :: r =>
    match best r with
    | some (j, m') => if m'.b < m.b then some (j, m') else some (k, m)
    | none => some (k, m)

/-- what reporting match `m` of expression `i` does to the buffers: expression `i` moves on; without overlap the others
skip what begins inside `m` -/
def advance (ov : Bool) (i : Nat) (m : M) : St → St × List Ev
  | [] => ([], [])
  | (k, l) :: r =>
    let p := advance ov i m r
    if k = i then ((k, l.tail) :: p.1, p.2)
    else if ov then ((k, l) :: p.1, p.2)
    else ((k, l.dropWhile (inside m)) :: p.1, (l.takeWhile (inside m)).map (fun m2 => Ev.drop k m2 i m) ++ p.2)

/-- the iterator run to its end (`fuel`: more than the number of matches) -/
def run (ov : Bool) : Nat → St → List Ev
  | 0, _ => []
  | f + 1, st =>
    match best st with
    | none => []
    | some (i, m) =>
      let p := advance ov i m st
      Ev.emit i m :: (p.2 ++ run ov f p.1)

def total (st : St) : Nat := (st.map (fun p => p.2.length)).sum

def Ev.emitted : Ev → Option (Nat × M)
  | .emit i m => some (i, m)
  | .drop .. => none

/-- the matches reported among the events: expression index and match -/
def emits (evs : List Ev) : List (Nat × M) := evs.filterMap Ev.emitted

/-- the state the iterator starts in: expression `i` has the matches the regex library finds for it -/
def start (lists : List (List M)) : St := lists.zipIdx.map (fun p => (p.2, p.1))

/-- what the iterator yields -/
def results (ov : Bool) (lists : List (List M)) : List (Nat × M) :=
  emits (run ov (total (start lists) + 1) (start lists))

end Stam.RX
