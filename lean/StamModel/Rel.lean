import StamModel.Prelude
/-
  C13 model: `TextSelectionOperator`, `impl TestTextSelection for TextSelection` and
  `impl TestTextSelection for TextSelectionSet` (src/textselection.rs).
  The resource enters only through the whitespace test of Precedes/Succeeds:
  `resource.text_by_offset(&Offset::simple(a,b))…chars().all(is_whitespace)`.
-/
namespace Stam

/-- What the relation tests can see of a resource: per code point, is it whitespace. -/
structure Res where
  ws : List Bool
deriving Repr

def Res.len (r : Res) : Nat := r.ws.length

/-- `text_by_offset(Offset::simple(a,b))` is `Ok` iff `a ≤ b ≤ len`; then all chars whitespace. -/
def Res.gapWs (r : Res) (a b : Nat) : Bool :=
  decide (a ≤ b) && decide (b ≤ r.len) && ((r.ws.drop a).take (b - a)).all id

/-- Mirror of `enum TextSelectionOperator`. -/
inductive Op where
  | equals (all neg : Bool)
  | overlaps (all neg : Bool)
  | embeds (all neg : Bool)
  | embedded (all neg : Bool) (limit : Option Nat)
  | before (all neg : Bool) (limit : Option Nat)
  | after (all neg : Bool) (limit : Option Nat)
  | precedes (all neg ws : Bool)
  | succeeds (all neg ws : Bool)
  | samebegin (all neg : Bool)
  | sameend (all neg : Bool)
  | inset (all neg : Bool)
  | samerange (all neg : Bool)
deriving DecidableEq, Repr

namespace Op
def all : Op → Bool
  | equals a _ | overlaps a _ | embeds a _ | embedded a _ _ | before a _ _ | after a _ _
  | precedes a _ _ | succeeds a _ _ | samebegin a _ | sameend a _ | inset a _ | samerange a _ => a
def neg : Op → Bool
  | equals _ n | overlaps _ n | embeds _ n | embedded _ n _ | before _ n _ | after _ n _
  | precedes _ n _ | succeeds _ n _ | samebegin _ n | sameend _ n | inset _ n | samerange _ n => n
def toggleNeg : Op → Op
  | equals a n => equals a (!n)
  | overlaps a n => overlaps a (!n)
  | embeds a n => embeds a (!n)
  | embedded a n l => embedded a (!n) l
  | before a n l => before a (!n) l
  | after a n l => after a (!n) l
  | precedes a n w => precedes a (!n) w
  | succeeds a n w => succeeds a (!n) w
  | samebegin a n => samebegin a (!n)
  | sameend a n => sameend a (!n)
  | inset a n => inset a (!n)
  | samerange a n => samerange a (!n)
def toggleAll : Op → Op
  | equals a n => equals (!a) n
  | overlaps a n => overlaps (!a) n
  | embeds a n => embeds (!a) n
  | embedded a n l => embedded (!a) n l
  | before a n l => before (!a) n l
  | after a n l => after (!a) n l
  | precedes a n w => precedes (!a) n w
  | succeeds a n w => succeeds (!a) n w
  | samebegin a n => samebegin (!a) n
  | sameend a n => sameend (!a) n
  | inset a n => inset (!a) n
  | samerange a n => samerange (!a) n
def withLimit (o : Op) (l : Nat) : Op :=
  match o with
  | embedded a n _ => embedded a n (some l)
  | before a n _ => before a n (some l)
  | after a n _ => after a n (some l)
  | o => o
/-- the operator with `negate := false` -/
def positive (o : Op) : Op := if o.neg then o.toggleNeg else o
end Op

/-- The non-negated arms of `TextSelection::test` (the `all` modifier is irrelevant for two
singletons). `a` is `self`, `c` is `reftextsel`. Subtractions are guarded exactly as in the
Rust (`&&` short-circuits), so `Nat` truncation is never reached on a true left operand. -/
def relPos (op : Op) (a c : TSel) (r : Res) : Bool :=
  match op with
  | .equals _ _ | .inset _ _ => decide (a = c)
  | .overlaps _ _ =>
      (decide (c.b ≥ a.b) && decide (c.b < a.e))
      || (decide (c.e > a.b) && decide (c.e ≤ a.e))
      || (decide (c.b ≤ a.b) && decide (c.e ≥ a.e))
      || (decide (a.b ≤ c.b) && decide (a.e ≥ c.e))
  | .embeds _ _ => decide (c.b ≥ a.b) && decide (c.e ≤ a.e)
  | .embedded _ _ (some l) =>
      decide (a.b ≥ c.b) && decide (a.e ≤ c.e) && decide (a.b - c.b ≤ l) && decide (c.e - a.e ≤ l)
  | .embedded _ _ none => decide (a.b ≥ c.b) && decide (a.e ≤ c.e)
  | .before _ _ (some l) => decide (a.e ≤ c.b) && decide (c.b - a.e ≤ l)
  | .before _ _ none => decide (a.e ≤ c.b)
  | .after _ _ (some l) => decide (a.b ≥ c.e) && decide (a.b - c.e ≤ l)
  | .after _ _ none => decide (a.b ≥ c.e)
  | .precedes _ _ w =>
      if !w then decide (a.e = c.b)
      else if c.b ≥ a.e then (if c.b - a.e = 0 then true else r.gapWs a.e c.b)
      else false
  | .succeeds _ _ w =>
      if !w then decide (c.e = a.b)
      else if a.b ≥ c.e then (if a.b - c.e = 0 then true else r.gapWs c.e a.b)
      else false
  | .samebegin _ _ => decide (a.b = c.b)
  | .sameend _ _ => decide (a.e = c.e)
  | .samerange _ _ => decide (a.b = c.b) && decide (a.e = c.e)

/-- `impl TestTextSelection for TextSelection :: test`. The negated arms recurse once through
`toggle_negate`. -/
def test (op : Op) (a c : TSel) (r : Res) : Bool :=
  if op.neg then !(relPos op a c r) else relPos op a c r

/-- A `TextSelectionSet`: its items in storage order and the `sorted` flag that switches
`leftmost`/`rightmost` to their fast paths. -/
structure TSet where
  items : List TSel
  sorted : Bool
deriving Repr

/-- first item with the strictly smallest begin (loop in `leftmost`) -/
def leftmostScan : List TSel → Option TSel → Option TSel
  | [], acc => acc
  | x :: xs, none => leftmostScan xs (some x)
  | x :: xs, some m => leftmostScan xs (if x.b < m.b then some x else some m)

def rightmostScan : List TSel → Option TSel → Option TSel
  | [], acc => acc
  | x :: xs, none => rightmostScan xs (some x)
  | x :: xs, some m => rightmostScan xs (if x.e > m.e then some x else some m)

def TSet.leftmost (s : TSet) : Option TSel :=
  if s.sorted then s.items.head? else leftmostScan s.items none
/-- (no fast path: a sorted set is ordered by begin first, its last item need not have the highest end) -/
def TSet.rightmost (s : TSet) : Option TSel := rightmostScan s.items none

/-- smallest `begin` / largest `end` among the items (the inline loops of
`TextSelection::test_set` for Precedes/Succeeds `all`) -/
def minBegin : List TSel → Option Nat → Option Nat
  | [], acc => acc
  | x :: xs, none => minBegin xs (some x.b)
  | x :: xs, some m => minBegin xs (if x.b < m then some x.b else some m)
def maxEnd : List TSel → Option Nat → Option Nat
  | [], acc => acc
  | x :: xs, none => maxEnd xs (some x.e)
  | x :: xs, some m => maxEnd xs (if x.e > m then some x.e else some m)

/-- non-negated arms of `impl TestTextSelection for TextSelection :: test_set` -/
def relSetPos (op : Op) (a : TSel) (s : TSet) (r : Res) : Bool :=
  match op with
  | .equals _ _ =>
      -- a selection equals a set when the set holds that selection and nothing else
      !s.items.isEmpty && s.items.all (fun c => relPos op a c r)
  | .inset _ _ | .overlaps false _ | .embeds false _ | .embedded false _ _
  | .before false _ _ | .after false _ _ | .precedes false _ _ | .succeeds false _ _
  | .samebegin false _ | .sameend false _ | .samerange false _ =>
      s.items.any (fun c => relPos op a c r)
  | .overlaps true _ | .embeds true _ | .embedded true _ _ | .before true _ _ | .after true _ _ =>
      !s.items.isEmpty && s.items.all (fun c => relPos op a c r)
  | .precedes true _ w =>
      match minBegin s.items none with
      | none => false
      | some lm =>
        if !w then decide (a.e = lm)
        else if lm ≥ a.e then (if lm - a.e = 0 then true else r.gapWs a.e lm)
        else false
  | .succeeds true _ w =>
      match maxEnd s.items none with
      | none => false
      | some rm =>
        if !w then decide (a.b = rm)
        else if a.b ≥ rm then (if a.b - rm = 0 then true else r.gapWs rm a.b)
        else false
  | .samebegin true _ =>
      match s.leftmost with
      | none => false
      | some l => decide (a.b = l.b)
  | .sameend true _ =>
      match s.rightmost with
      | none => false
      | some x => decide (a.e = x.e)
  | .samerange true _ =>
      match s.leftmost, s.rightmost with
      | some l, some x => decide (a.b = l.b) && decide (a.e = x.e)
      | _, _ => false

def testSet (op : Op) (a : TSel) (s : TSet) (r : Res) : Bool :=
  if op.neg then !(relSetPos op a s r) else relSetPos op a s r

/-- which item of the set the `all` variants delegate to -/
inductive Pick | every | left | right | both
deriving DecidableEq, Repr

def Op.pick : Op → Pick
  | .precedes true _ _ | .before true _ _ | .sameend true _ => .right
  | .succeeds true _ _ | .after true _ _ | .samebegin true _ => .left
  | .samerange true _ => .both
  | _ => .every

/-- non-negated arms of `impl TestTextSelection for TextSelectionSet :: test`
(`self` is the set, the reference a single selection); an empty set is `false` before the
operator is even looked at, negated or not. -/
def setRelPos (op : Op) (s : TSet) (c : TSel) (r : Res) : Bool :=
  match op.pick with
  | .every => s.items.all (fun a => relPos op a c r)
  | .right => match s.rightmost with
      | some a => relPos op a c r
      | none => false
  | .left => match s.leftmost with
      | some a => relPos op a c r
      | none => false
  | .both => match s.leftmost, s.rightmost with
      | some a, some a' => relPos op a c r && relPos op a' c r
      | _, _ => false

def setTest (op : Op) (s : TSet) (c : TSel) (r : Res) : Bool :=
  if s.items.isEmpty then false
  else if op.neg then !(setRelPos op s c r) else setRelPos op s c r

/-- non-negated arms of `impl TestTextSelection for TextSelectionSet :: test_set` -/
def setRelSetPos (op : Op) (s : TSet) (t : TSet) (r : Res) : Bool :=
  match op with
  | .equals _ _ =>
      -- every member of the one among the members of the other, both ways round (a set may hold a member twice: the
      -- numbers of stored items are not compared)
      s.items.all (fun a => t.items.any (fun c => relPos op a c r)) && t.items.all (fun c => s.items.any (fun a => relPos op c a r))
  | _ =>
    match op.pick with
    | .every => s.items.all (fun a => relSetPos op a t r)
    | .right => match s.rightmost with
        | some a => relSetPos op a t r
        | none => false
    | .left => match s.leftmost with
        | some a => relSetPos op a t r
        | none => false
    | .both => match s.leftmost, s.rightmost with
        | some a, some a' => relSetPos op a t r && relSetPos op a' t r
        | _, _ => false

def setTestSet (op : Op) (s : TSet) (t : TSet) (r : Res) : Bool :=
  if s.items.isEmpty then false
  else if op.neg then !(setRelSetPos op s t r) else setRelSetPos op s t r

end Stam
