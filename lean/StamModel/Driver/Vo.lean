import StamModel.Vocab
open Stam
namespace Driver

/-- one operation: `i<r>,<id|->,<key>,<value>,<0|1>` / `d<r>,<n>` / `k<r>,<n>` / `m` -/
def voOp (t : String) : Option Vocab.Op :=
  match t.splitOn "," with
  | ["m"] => some .merge
  | [c, id, k, v, sf] =>
    if c = "i0" ∨ c = "i1" then
      if sf = "0" ∨ sf = "1" then some (.ins (c = "i1") (if id = "-" then none else some id) k v (sf = "1")) else none
    else none
  | [c, n] =>
    match n.toNat? with
    | some n =>
      if c = "d0" ∨ c = "d1" then some (.rmData (c = "d1") n)
      else if c = "k0" ∨ c = "k1" then some (.rmKey (c = "k1") n)
      else none
    | none => none
  | _ => none

def voShow (s : Vocab.DSet) : String :=
  let ks := ",".intercalate (s.keys.map (fun k => k.getD "~"))
  let ds := ",".intercalate (s.data.map (fun d => match d with
    | some x => s!"{x.id.getD "-"}:{x.key}={x.val}"
    | none => "~"))
  let xs := ",".intercalate (((List.range s.idx.length).filter (fun k => !(Vocab.idxGet s.idx k).isEmpty)).map
    (fun k => s!"{k}:" ++ ".".intercalate ((Vocab.idxGet s.idx k).map toString)))
  s!"K[{ks}] D[{ds}] X[{xs}]"

/-- `vo <op> <op> …`: the operations from two empty datasets; answers the first dataset, then the second -/
def vo (args : List String) : String :=
  let ops := args.map voOp
  if ops.any Option.isNone then "bad-op" else
  let p := Vocab.run (ops.filterMap id)
  voShow p.1 ++ " | " ++ voShow p.2

end Driver
