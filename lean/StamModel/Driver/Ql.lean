import StamModel.StamqlA
import StamModel.Driver.Tv
open Stam
namespace Driver

def showArgType : QL.ArgType → String
  | .string => "String" | .integer => "Integer" | .float => "Float" | .unquotedList => "UnquotedList"
  | .list => "List" | .null => "Null" | .bool => "Bool" | .datetime => "Datetime" | .any => "Any"

def allDigits (s : List Char) : Bool := !s.isEmpty && s.all Char.isDigit

/-- `str::parse::<isize>` on a 64-bit target -/
def parseIsize (s : List Char) : Option Int :=
  let (neg, body) := match s with
    | '-' :: r => (true, r)
    | '+' :: r => (false, r)
    | r => (false, r)
  if !allDigits body then none else
    let n : Int := (String.ofList body).toNat!
    let v := if neg then -n else n
    if v < -9223372036854775808 ∨ v > 9223372036854775807 then none else some v

/-- the float literals the correspondence check uses: optional sign, digits, one period, digits (Rust accepts
more; the harness only sends these to the model) -/
def parseFloatLit (s : List Char) : Bool :=
  let body := match s with | '-' :: r => r | r => r
  match (String.ofList body).splitOn "." with
  | [a, b] => (allDigits a.toList || a.isEmpty) && (allDigits b.toList || b.isEmpty) && !(a.isEmpty && b.isEmpty)
  | _ => false

def num2 (s : List Char) (lo hi : Nat) : Bool :=
  s.length == 2 && allDigits s && lo ≤ (String.ofList s).toNat! && (String.ofList s).toNat! ≤ hi

/-- the last day of a month (February: 28; the 29th of a leap year is not modelled: the harness does not send it) -/
def monthDays (m : List Char) : Nat :=
  let n := (String.ofList m).toNat!
  if n = 2 then 28 else if n = 4 ∨ n = 6 ∨ n = 9 ∨ n = 11 then 30 else 31

/-- RFC 3339 recogniser for the shapes the harness sends: `YYYY-MM-DDTHH:MM:SS[.fff](Z|±HH:MM)` with field
ranges; the 29th of February and leap seconds are not modelled (the harness does not send such values) -/
def isDatetimeLit (s : List Char) : Bool :=
  match s with
  | y1 :: y2 :: y3 :: y4 :: '-' :: m1 :: m2 :: '-' :: d1 :: d2 :: t :: h1 :: h2 :: ':' :: n1 :: n2 :: ':' :: s1 :: s2 :: rest =>
    allDigits [y1, y2, y3, y4] && num2 [m1, m2] 1 12 && num2 [d1, d2] 1 (monthDays [m1, m2]) && (t == 'T' || t == 't' || t == ' ') &&
    num2 [h1, h2] 0 23 && num2 [n1, n2] 0 59 && num2 [s1, s2] 0 59 &&
    (let rest := match rest with
       | '.' :: r => let frac := r.takeWhile Char.isDigit; if frac.isEmpty then ['!'] else r.dropWhile Char.isDigit
       | r => r
     match rest with
     | ['Z'] | ['z'] => true
     | sg :: a1 :: a2 :: ':' :: b1 :: b2 :: [] => (sg == '+' || sg == '-') && num2 [a1, a2] 0 23 && num2 [b1, b2] 0 59
     | _ => false)
  | _ => false

/-- Rust's `{:?}` of a string, for the characters the harness sends (backslash and quote escaped) -/
def showStrDebug (s : List Char) : String :=
  "\"" ++ String.ofList (s.flatMap (fun c => if c = '\\' then ['\\', '\\'] else if c = '"' then ['\\', '"']
    else if c = '\n' then ['\\', 'n'] else if c = '\t' then ['\\', 't'] else if c = '\r' then ['\\', 'r']
    else if c.toNat = 0 then ['\\', '0']
    else if c.toNat < 32 ∨ c.toNat = 127 then ['\\', 'u', '{'] ++ (Nat.toDigits 16 c.toNat) ++ ['}'] else [c])) ++ "\""

partial def showOp : QL.Op → String
  | .any => "Any" | .null => "Null" | .tru => "True" | .fls => "False"
  | .eq s => s!"Equals({showStrDebug s})"
  | .eqi n => s!"EqualsInt({n})" | .eqf l => s!"EqualsFloat({String.ofList l})" | .eqd l => s!"ExactDatetime({String.ofList l})"
  | .gt n => s!"GreaterThan({n})" | .ge n => s!"GreaterThanOrEqual({n})" | .lt n => s!"LessThan({n})" | .le n => s!"LessThanOrEqual({n})"
  | .gtf l => s!"GreaterThanFloat({String.ofList l})" | .gef l => s!"GreaterThanOrEqualFloat({String.ofList l})"
  | .ltf l => s!"LessThanFloat({String.ofList l})" | .lef l => s!"LessThanOrEqualFloat({String.ofList l})"
  | .gtd l => s!"AfterDatetime({String.ofList l})" | .ged l => s!"AtOrAfterDatetime({String.ofList l})"
  | .ltd l => s!"BeforeDatetime({String.ofList l})" | .led l => s!"AtOrBeforeDatetime({String.ofList l})"
  | .not o => s!"Not({showOp o})"
  | .or os => "Or([" ++ ", ".intercalate (os.map showOp) ++ "])"

/-- the same, strings in hex: for the lines that carry arbitrary text (constraints, queries) -/
partial def showOpHex : QL.Op → String
  | .eq s => s!"Equals({hexOf s})"
  | .not o => s!"Not({showOpHex o})"
  | .or os => "Or([" ++ ", ".intercalate (os.map showOpHex) ++ "])"
  | o => showOp o

def showQual : QL.Qual → String | .normal => "N" | .metadata => "M"

/-- `usize::from_str_radix(s, 10)` on a 64-bit target: an optional `+`, digits, below 2^64 -/
def parseUsizeTok (s : List Char) : Option Nat :=
  let body := match s with | '+' :: r => r | r => r
  if !allDigits body then none else
    let n := (String.ofList body).toNat!
    if n < 2 ^ 64 then some n else none

def showCursorT : Cursor → String
  | .b n => s!"b{n}"
  | .e z => s!"e{z}"

def showOff : Option (Cursor × Cursor) → String
  | none => "-"
  | some (b, e) => s!"{showCursorT b}:{showCursorT e}"

/-- canonical rendering of a constraint of the modelled kinds -/
def showCn : QL.Cn → String
  | .id s => s!"id {hexOf s}"
  | .dataset s q => s!"dataset {hexOf s} {showQual q}"
  | .datasetVar v q => s!"datasetvar {hexOf v} {showQual q}"
  | .substore (some s) => s!"substore {hexOf s}"
  | .substore none => "substore ~"
  | .substoreVar v => s!"substorevar {hexOf v}"
  | .text s nocase => s!"text {hexOf s} {if nocase then 1 else 0}"
  | .textVar v => s!"textvar {hexOf v}"
  | .regex s => s!"regex {hexOf s}"
  | .dataKey set key q => s!"datakey {hexOf set} {hexOf key} {showQual q}"
  | .keyValue set key o q => s!"keyvalue {hexOf set} {hexOf key} {showQual q} {showOpHex o}"
  | .dataVar v q => s!"datavar {hexOf v} {showQual q}"
  | .keyValueVar v o q => s!"keyvaluevar {hexOf v} {showQual q} {showOpHex o}"
  | .annotation s q r off => s!"annotation {hexOf s} {showQual q} {if r then 1 else 0} {showOff off}"
  | .annotationVar v q r off => s!"annotationvar {hexOf v} {showQual q} {if r then 1 else 0} {showOff off}"
  | .resource s q off => s!"resource {hexOf s} {showQual q} {showOff off}"
  | .resourceVar v q off => s!"resourcevar {hexOf v} {showQual q} {showOff off}"
  | .relation v op => s!"relation {hexOf v} {String.ofList op}"
  | .value o q => s!"value {showQual q} {showOpHex o}"
  | .keyVar v q => s!"keyvar {hexOf v} {showQual q}"
  | .limit b e => s!"limit {b} {e}"

/-- canonical rendering of a SELECT query -/
partial def showQ : QL.Q → String
  | .mk opt ty name cs subs =>
    let n := match name with | some n => hexOf n | none => "~"
    s!"(S {if opt then 1 else 0} {String.ofList ty.upper} {n} [" ++ "; ".intercalate (cs.map showCn) ++ "] {" ++
      " ".intercalate (subs.map showQ) ++ "})"

def showAVal : QL.AVal → String
  | .null => "n" | .bool b => if b then "b1" else "b0" | .int z => s!"i{z}" | .float l => "f" ++ String.ofList l | .str s => "s" ++ hexOf s

def showAsg : QL.Asg → String
  | .id s => "id:" ++ hexOf s
  | .data set key v => s!"data:{hexOf set}:{hexOf key}:{showAVal v}"
  | .target n off => s!"target:{hexOf n}:{showOff off}"
  | .complex k => "complex:" ++ (match k with | .comp => "composite" | .multi => "multi" | .dir => "directional")

/-- canonical rendering of a query of any of the three types -/
def showQQ : QL.QQ → String
  | .select q => showQ q
  | .add name asgs subs =>
    let n := match name with | some n => hexOf n | none => "~"
    s!"(A {n} [" ++ "; ".intercalate (asgs.map showAsg) ++ "] {" ++ " ".intercalate (subs.map showQ) ++ "})"
  | .delete name subs =>
    let n := match name with | some n => hexOf n | none => "~"
    "(D " ++ n ++ " {" ++ " ".intercalate (subs.map showQ) ++ "})"

/-- the external functions for a query line: `bad` lists (hex, comma separated) the strings `Regex::new` refuses -/
def extOf (bad : String) : QL.Ext :=
  let badList := if bad = "-" then [] else (bad.splitOn ",").filterMap unhex
  { parseI := parseIsize, parseF := parseFloatLit, isDt := isDatetimeLit, regexOk := fun s => !badList.contains s, parseNat := parseUsizeTok }

/-- `ql q <hex> <bad>`: `Query::parse` (all three query types) and `to_string` of what it parsed -/
def qLine (h bad : String) (withPrint : Bool) : String :=
  match unhex h with
  | some s =>
    match QL.parseQueryAll (extOf bad) s with
    | .ok (qq, r) =>
      let printed := if withPrint then (match QL.printQQ (fun n => (toString n).toList) qq with | some t => hexOf t | none => "~") else "~"
      s!"ok | {showQQ qq} | {hexOf r} | {printed}"
    | .err m => if m = "unmodelled" then "skip-unmodelled" else if m = "fuel" then "fuel" else "err"
    | .panic m => "panic:" ++ m
  | none => "bad-op"

/-- `ql arg <hex>` / `ql type <hex> <quoted>` / `ql op <ophex> <valuehex> <quoted>` / `ql cn <hex> <reok>` / `ql q <hex> <bad>` -/
def ql (args : List String) : String :=
  match args with
  | ["arg", h] =>
    match unhex h with
    | some s =>
      match QL.getArg isDatetimeLit s with
      | some (a, r, t) => s!"ok {hexOf a} {hexOf r} {showArgType t}"
      | none => "err"
    | none => "bad-op"
  | ["type", h, q] =>
    match unhex h with
    | some s => showArgType (QL.argType isDatetimeLit s (q = "1"))
    | none => "bad-op"
  | ["op", oh, vh, q] =>
    match unhex oh, unhex vh with
    | some o, some v =>
      match QL.parseOp parseIsize parseFloatLit isDatetimeLit o v (QL.argType isDatetimeLit v (q = "1")) with
      | .ok op => "ok " ++ showOp op
      | .err _ => "err"
      | .panic m => "panic:" ++ m
    | _, _ => "bad-op"
  | ["cn", h, reok] =>
    match unhex h with
    | some s =>
      match QL.parseCnAll parseIsize parseFloatLit isDatetimeLit (fun _ => reok = "1") parseUsizeTok s with
      | .ok (c, r) =>
        let printed := match QL.printCn (fun n => (toString n).toList) c with | some t => hexOf t | none => "~"
        s!"ok | {showCn c} | {hexOf r} | {printed}"
      | .err m => if m = "unmodelled" then "unmodelled" else "err"
      | .panic m => "panic:" ++ m
    | none => "bad-op"
  | ["q", h, bad] => qLine h bad true
  -- (a float of an assignment is printed by the code from its value; the model prints the literal: the harness asks for
  -- no printed text when a literal is not in the form the code prints)
  | ["q", h, bad, "noprint"] => qLine h bad false
  | _ => "bad-op"

end Driver
