import StamModel.QuerySem
import StamModel.DataValue
import StamModel.Driver.Txt
open Stam
namespace Driver

def parseIntTok (t : String) : Option Int :=
  if t.startsWith "-" then ((t.drop 1).toNat?).map (fun n => -(n : Int)) else t.toNat?.map (fun n => (n : Int))

def parseAtom (tok : String) : Option DOp :=
  match tok.splitOn ":" with
  | [k, v] =>
    let str : Option String := (unhex v).map String.ofList
    match k with
    | "eq" => str.map .eq
    | "has" => str.map .has
    | "eqi" => (parseIntTok v).map .eqi | "gt" => (parseIntTok v).map .gt | "ge" => (parseIntTok v).map .ge
    | "lt" => (parseIntTok v).map .lt | "le" => (parseIntTok v).map .le | "hasi" => (parseIntTok v).map .hasi
    | "eqf" => (parseIntTok v).map .eqf | "gtf" => (parseIntTok v).map .gtf | "gef" => (parseIntTok v).map .gef
    | "ltf" => (parseIntTok v).map .ltf | "lef" => (parseIntTok v).map .lef | "hasf" => (parseIntTok v).map .hasf
    | "dte" => (parseIntTok v).map .dte | "dta" => (parseIntTok v).map .dta | "dtb" => (parseIntTok v).map .dtb
    | "dtae" => (parseIntTok v).map .dtae | "dtbe" => (parseIntTok v).map .dtbe
    | _ => none
  | _ => none

mutual
/-- prefix-token operator parser with fuel -/
def parseDOp : Nat → List String → Option (DOp × List String)
  | 0, _ => none
  | _, [] => none
  | fuel + 1, tok :: rest =>
    if tok = "any" then some (.any, rest)
    else if tok = "null" then some (.null, rest)
    else if tok = "true" then some (.tru, rest)
    else if tok = "false" then some (.fls, rest)
    else if tok = "not" then (parseDOp fuel rest).map (fun (o, r) => (.not o, r))
    else if tok = "and" || tok = "or" then
      match rest with
      | k :: rest' =>
        match k.toNat? with
        | none => none
        | some n => (parseMany fuel n rest').map (fun (os, r) => (if tok = "and" then .and os else .or os, r))
      | [] => none
    else (parseAtom tok).map (fun x => (x, rest))
def parseMany : Nat → Nat → List String → Option (List DOp × List String)
  | _, 0, r => some ([], r)
  | 0, _, _ => none
  | fuel + 1, c + 1, r =>
    match parseDOp fuel r with
    | none => none
    | some (o, r') => (parseMany fuel c r').map (fun (os, r'') => (o :: os, r''))
end

def dv (args : List String) : String :=
  match args with
  | "test" :: vhex :: optoks =>
    match unhex vhex, parseDOp 64 optoks with
    | some cs, some (op, []) => toString (dvTest (DV.parse (String.ofList cs)) op)
    | _, _ => "bad-op"
  | _ => "bad-op"

def findDataCmd (s : State) (args : List String) : String :=
  match args with
  | set :: key :: optoks =>
    match parseDOp 64 optoks with
    | some (op, []) =>
      let r := s.findData (if set = "*" then none else some set) (if key = "*" then none else some key)
        (fun v => dvTest (DV.parse v) op)
      if r.isEmpty then "-" else ",".intercalate (r.map (fun p => s!"{p.1}.{p.2}"))
    | _ => "bad-op"
  | _ => "bad-op"

def showHandles (l : List Nat) : String := if l.isEmpty then "-" else ",".intercalate (l.map toString)

/-- split a token list at `;;` -/
def splitConstraints : List String → List (List String)
  | [] => [[]]
  | t :: ts =>
    match splitConstraints ts with
    | [] => [[t]]
    | c :: cs => if t = ";;" then [] :: c :: cs else (t :: c) :: cs

def foundOf (s : State) (toks : List String) : Option (List (Nat × Nat)) :=
  match toks with
  | set :: key :: optoks =>
    match parseDOp 64 optoks with
    | some (op, []) => some (s.findData (if set = "*" then none else some set) (if key = "*" then none else some key)
        (fun v => dvTest (DV.parse v) op))
    | _ => none
  | _ => none

/-- `st qann set key op…`: SELECT ANNOTATION with that data constraint, index-driven (p=) and as a filter (f=) -/
def qannCmd (s : State) (args : List String) : String :=
  match foundOf s args with
  | some found => s!"p={showHandles (s.annsOfData found)} f={showHandles (s.annsWithData found)}"
  | none => "bad-op"

/-- `st qand c1 ;; c2 ;; …`: the conjunction, the first constraint index-driven -/
def qandCmd (s : State) (args : List String) : String :=
  match (splitConstraints args).mapM (foundOf s) with
  | some (first :: others) => showHandles (s.annsQuery first others)
  | _ => "bad-op"

end Driver
