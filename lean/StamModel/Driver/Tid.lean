import StamModel.Untrusted
import StamModel.Driver.Tv
open Stam
namespace Driver

/-- `tid load <items: '-' or a handle, comma separated>` / `tid resolve <hex>` -/
def tid (args : List String) : String :=
  match args with
  | ["load", items] =>
    let its : List (Option (Option Nat)) := (if items = "_" then [] else items.splitOn ",").map (fun t => if t = "-" then some none else t.toNat?.map some)
    if its.any Option.isNone then "bad-op" else
    match UT.load (fun gap => gap < 1099511627776) 0 (its.filterMap id) with
    | some land => "ok " ++ (if land.isEmpty then "-" else ",".intercalate (land.map toString))
    | none => "err"
  | ["merge", pre, items] =>
    let its : List (Option (Option Nat)) := (if items = "_" then [] else items.splitOn ",").map (fun t => if t = "-" then some none else t.toNat?.map some)
    match pre.toNat? with
    | none => "bad-op"
    | some p =>
      if its.any Option.isNone then "bad-op" else
      match UT.loadInto (fun gap => gap < 1099511627776) p p (its.filterMap id) with
      | some land => "ok " ++ ",".intercalate (((List.range p) ++ land).map toString)
      | none => "err"
  | ["resolve", h] =>
    match unhex h with
    | some s => match UT.resolveTempId s with | some n => toString n | none => "none"
    | none => "bad-op"
  | _ => "bad-op"

end Driver
