import StamModel.Transpose
import StamModel.Driver.Tv
open Stam
namespace Driver

def parseFrag (s : String) : Option TP.Frag :=
  match s.splitOn "." with
  | [r, b, e] => do some ⟨← r.toNat?, ← b.toNat?, ← e.toNat?⟩
  | _ => none

def parseFrags (s : String) : Option (List TP.Frag) :=
  if s = "-" then some [] else optAll ((s.splitOn "+").map parseFrag)

def showFrags (l : List TP.Frag) : String :=
  if l.isEmpty then "-" else "+".intercalate (l.map (fun f => s!"{f.res}.{f.b}.{f.e}"))

/-- `tp <simple 0|1> <res> <source frags> <byindex|-> <side|side|…>` -/
def tp (args : List String) : String :=
  match args with
  | [simple, res, source, byIndex, sides] =>
    match res.toNat?, parseFrags source, optAll ((sides.splitOn "|").map parseFrags) with
    | some res, some source, some via =>
      let bi : Option Nat := byIndex.toNat?
      match TP.transpose via (simple = "1") res (source.map (fun f => (f.b, f.e))) bi with
      | .ok sides => "ok " ++ "|".intercalate (sides.map showFrags)
      | .err _ => "err"
      | .panic _ => "panic"
    | _, _, _ => "bad-op"
  | _ => "bad-op"

end Driver
