import StamModel.PosIndex
open Stam
namespace Driver

def pxOp (t : String) : Option PI.Op :=
  if t.startsWith "m" then (t.drop 1).toString.toNat?.map PI.Op.milestones
  else if t.startsWith "s" then
    match (t.drop 1).toString.splitOn "." with
    | [b, e] => do some (.sel (← b.toNat?) (← e.toNat?))
    | _ => none
  else none

def pxPairs (l : List (Nat × Nat)) : String := ".".intercalate (l.map (fun p => s!"{p.1}-{p.2}"))

/-- `px <widths, comma separated> <op> …` with `m<interval>` / `s<begin>.<end>`: the index as the hook dumps it
(`position:byte:begin2end:end2begin`), then the positions in use (begin / end / both) -/
def px (args : List String) : String :=
  match args with
  | ws :: ops =>
    let widths := (ws.splitOn ",").map String.toNat?
    let ops' := ops.map pxOp
    if widths.any Option.isNone || ops'.any Option.isNone then "bad-op" else
    let w := widths.filterMap id
    let st := PI.run w (ops'.filterMap id)
    let dump := ",".intercalate (st.idx.map (fun e => s!"{e.1}:{e.2.bytepos}:{pxPairs e.2.b2e}:{pxPairs e.2.e2b}"))
    let pos (m : PI.Mode) := ".".intercalate ((PI.positions st.idx m).map toString)
    s!"{dump} | {pos .begin} | {pos .end_} | {pos .both} | {st.nsel}"
  | _ => "bad-op"

end Driver
