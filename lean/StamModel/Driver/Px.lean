import StamModel.PosIndex
open Stam
namespace Driver

def pxWidths (t : String) : Option (List Nat) :=
  if t = "-" then some [] else (t.splitOn ".").mapM String.toNat?

/-- the operations of a line: `m<interval>` (the resource enters a store under that interval: a milestone pass),
`s<begin>.<end>` (a text selection), `t<widths, dot separated>` (the text is replaced with `with_string`, under the
interval the resource has, and the resource enters a new store under the same interval) -/
def pxOps : List String → Nat → Option (List PI.TOp)
  | [], _ => some []
  | t :: r, last =>
    if t.startsWith "m" then
      match (t.drop 1).toString.toNat? with
      | some i => (pxOps r i).map (fun l => PI.TOp.op (.milestones i) :: l)
      | none => none
    else if t.startsWith "s" then
      match (t.drop 1).toString.splitOn "." with
      | [b, e] =>
        match b.toNat?, e.toNat? with
        | some b, some e => (pxOps r last).map (fun l => PI.TOp.op (.sel b e) :: l)
        | _, _ => none
      | _ => none
    else if t.startsWith "t" then
      match pxWidths (t.drop 1).toString with
      | some ws => (pxOps r last).map (fun l => PI.TOp.retext ws last :: PI.TOp.op (.milestones last) :: l)
      | none => none
    else none

def pxPairs (l : List (Nat × Nat)) : String := ".".intercalate (l.map (fun p => s!"{p.1}-{p.2}"))

/-- `px <widths, comma separated> <op> …`: the index as the hook dumps it (`position:byte:begin2end:end2begin`), then
the positions in use (begin / end / both) and the number of text selections -/
def px (args : List String) : String :=
  match args with
  | ws :: ops =>
    let widths := (ws.splitOn ",").map String.toNat?
    if widths.any Option.isNone then "bad-op" else
    match pxOps ops 0 with
    | none => "bad-op"
    | some tops =>
      let w := widths.filterMap id
      let st := (PI.runT w tops).2
      let dump := ",".intercalate (st.idx.map (fun e => s!"{e.1}:{e.2.bytepos}:{pxPairs e.2.b2e}:{pxPairs e.2.e2b}"))
      let pos (m : PI.Mode) := ".".intercalate ((PI.positions st.idx m).map toString)
      s!"{dump} | {pos .begin} | {pos .end_} | {pos .both} | {st.nsel}"
  | _ => "bad-op"

end Driver
