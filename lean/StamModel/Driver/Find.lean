import StamModel.Find
import StamModel.Driver.Rel
open Stam
namespace Driver

def parseRanges (s : String) : Option (List TSel) :=
  if s = "-" then some [] else (s.splitOn ",").mapM parseTSel

def showRanges (l : List TSel) : String :=
  if l.isEmpty then "-" else ",".intercalate (l.map (fun t => s!"{t.b}-{t.e}"))

def findCmd (args : List String) : String :=
  match args with
  | [ws, name, al, ng, x, refs, known] =>
    match parseOp name al ng x, parseRanges refs, parseRanges known with
    | some op, some refs, some known =>
      match search op ⟨refs, false⟩ known (parseWs ws) with
      | .ok l => showRanges l
      | .err _ => "err"
      | .panic m => s!"panic:{m}"
    | _, _, _ => "bad-op"
  | _ => "bad-op"

end Driver
