import StamModel.Collections
import StamModel.Driver.Dv
import StamModel.Driver.Tv
open Stam
namespace Driver

def parseNats (s : String) : Option (List Nat) :=
  if s = "-" then some [] else optAll ((s.splitOn ",").map String.toNat?)

def showNats (l : List Nat) : String := if l.isEmpty then "-" else ",".intercalate (l.map toString)

/-- `hs union|inter a b`, `hs contains|position a x`, `lim b e n` -/
def hs (args : List String) : String :=
  match args with
  | [op, a, b] =>
    match parseNats a, parseNats b with
    | some a, some b =>
      let ha := Coll.fromIter a
      if op = "union" then let r := Coll.union ha (Coll.fromIter b); s!"{showNats r.arr} s={if r.sorted then 1 else 0}"
      else if op = "inter" then let r := Coll.inter ha (Coll.fromIter b); s!"{showNats r.arr} s={if r.sorted then 1 else 0}"
      else if op = "contains" then toString (a.contains (b.headD 0))
      else if op = "position" then (match a.findIdx? (· == b.headD 0) with | some i => toString i | none => "none")
      else "bad-op"
    | _, _ => "bad-op"
  | _ => "bad-op"

def lim (args : List String) : String :=
  match args with
  | [b, e, n] =>
    match parseIntTok b, parseIntTok e, n.toNat? with
    | some b, some e, some n => showNats (Coll.limit b e (List.range n))
    | _, _, _ => "bad-op"
  | _ => "bad-op"

end Driver
