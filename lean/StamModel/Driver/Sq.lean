import StamModel.QueryIter
open Stam
namespace Driver

/-- forest := tree (',' tree)* ; tree := label ('[' forest? ']')? ; labels hold none of `[`, `]`, `,` -/
def spanLabel : List Char → List Char × List Char
  | [] => ([], [])
  | c :: cs => if c = '[' ∨ c = ']' ∨ c = ',' then ([], c :: cs) else let (a, b) := spanLabel cs; (c :: a, b)

mutual
def parseTree : Nat → List Char → Option (QI.Tree String × List Char)
  | 0, _ => none
  | fuel + 1, s =>
    let (lab, rest) := spanLabel s
    if lab.isEmpty then none else
    match rest with
    | '[' :: ']' :: r => some (.node (String.ofList lab) [], r)
    | '[' :: r =>
      match parseForest fuel r with
      | some (f, ']' :: r') => some (.node (String.ofList lab) f, r')
      | _ => none
    | r => some (.node (String.ofList lab) [], r)
def parseForest : Nat → List Char → Option (List (QI.Tree String) × List Char)
  | 0, _ => none
  | fuel + 1, s =>
    match parseTree fuel s with
    | none => none
    | some (t, ',' :: r) => (parseForest fuel r).map (fun (ts, r') => (t :: ts, r'))
    | some (t, r) => some ([t], r)
end

def showRows (rs : List (List String)) : String := " ".intercalate (rs.map (fun r => "+".intercalate r))

/-- `sq <OPTIONAL flags, one digit per level> <forest>`: the rows the QueryIter machine yields -/
def sq (args : List String) : String :=
  match args with
  | [flags, forest] =>
    let opt : List Bool := flags.toList.map (fun c => c == '1')
    let cs := forest.toList
    match parseForest (cs.length + 1) cs with
    | some (f, []) => showRows (QI.rows opt.length opt f)
    | _ => "bad-op"
  | _ => "bad-op"

/-- `sqspec …`: the same through the specification (nested iteration) -/
def sqspec (args : List String) : String :=
  match args with
  | [flags, forest] =>
    let opt : List Bool := flags.toList.map (fun c => c == '1')
    let cs := forest.toList
    match parseForest (cs.length + 1) cs with
    | some (f, []) => showRows (QI.nested opt f)
    | _ => "bad-op"
  | _ => "bad-op"

end Driver
