import StamModel.Rel
open Stam

namespace Driver

def parseBool (s : String) : Option Bool :=
  if s = "1" then some true else if s = "0" then some false else none

def parseTSel (s : String) : Option TSel :=
  match s.splitOn "-" with
  | [b, e] => do some ⟨← b.toNat?, ← e.toNat?⟩
  | _ => none

def parseTSet (s : String) : Option TSet :=
  match s.splitOn ":" with
  | [f, items] =>
    let sorted := f = "s"
    if items = "" then some ⟨[], sorted⟩ else
    (items.splitOn ",").mapM parseTSel |>.map (fun l => ⟨l, sorted⟩)
  | _ => none

def parseWs (s : String) : Res :=
  if s = "-" then ⟨[]⟩ else ⟨s.toList.map (fun c => c == '1' || c == '2')⟩

def parseOp (name al ng x : String) : Option Op := do
  let a ← parseBool al
  let n ← parseBool ng
  let lim : Option (Option Nat) := if x = "n" then some none else x.toNat?.map some
  match name with
  | "equals" => some (.equals a n)
  | "overlaps" => some (.overlaps a n)
  | "embeds" => some (.embeds a n)
  | "embedded" => do some (.embedded a n (← lim))
  | "before" => do some (.before a n (← lim))
  | "after" => do some (.after a n (← lim))
  | "precedes" => do some (.precedes a n (← parseBool x))
  | "succeeds" => do some (.succeeds a n (← parseBool x))
  | "samebegin" => some (.samebegin a n)
  | "sameend" => some (.sameend a n)
  | "inset" => some (.inset a n)
  | "samerange" => some (.samerange a n)
  | _ => none

def rel (args : List String) : String :=
  match args with
  | [kind, ws, name, al, ng, x, sa, sb] =>
    match parseOp name al ng x, parseTSet sa, parseTSet sb with
    | some op, some A, some B =>
      let r := parseWs ws
      match kind, A.items, B.items with
      | "tt", [a], [c] => toString (test op a c r)
      | "ts", [a], _ => toString (testSet op a B r)
      | "st", _, [c] => toString (setTest op A c r)
      | "ss", _, _ => toString (setTestSet op A B r)
      | _, _, _ => "bad-op"
    | _, _, _ => "bad-op"
  | _ => "bad-op"


end Driver
