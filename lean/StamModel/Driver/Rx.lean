import StamModel.RegexMerge
open Stam
namespace Driver

def rxList (t : String) : Option (List RX.M) :=
  if t = "-" then some [] else
  (t.splitOn ",").mapM (fun x => match x.splitOn "-" with
    | [b, e] => do some ⟨← b.toNat?, ← e.toNat?⟩
    | _ => none)

/-- `rx <0|1> <matches of expression 0>/<matches of expression 1>/…` (each `b-e,b-e,…` or `-`): what the merged search
reports, `index:b-e` in order (what follows on the line is for replaying it on the implementation) -/
def rx (args : List String) : String :=
  match args with
  | ov :: ls :: _ =>
    match (ls.splitOn "/").mapM rxList with
    | some lists =>
      let r := RX.results (ov = "1") lists
      if r.isEmpty then "-" else " ".intercalate (r.map (fun p => s!"{p.1}:{p.2.b}-{p.2.e}"))
    | none => "bad-op"
  | _ => "bad-op"

end Driver
