import StamModel.Store
import StamModel.Driver.Off
import StamModel.Driver.Txt
import StamModel.Driver.Dv
open Stam
namespace Driver

def parseRef (s : String) : Ref :=
  if s.startsWith "#" then
    match (s.drop 1).toNat? with
    | some n => .h n
    | none => .h 1000000000
  else .id s

def parseSimpleSel (t : String) : Option SelReq :=
  match t.splitOn ":" with
  | ["R", r] => some (.res r)
  | ["T", r, c1, c2] => do some (.text r ⟨← parseCursor c1, ← parseCursor c2⟩)
  | ["A", a] => some (.ann (parseRef a))
  | ["AO", a, c1, c2] => do some (.annoff (parseRef a) ⟨← parseCursor c1, ← parseCursor c2⟩)
  | ["S", s] => some (.set s)
  | ["K", s, k] => some (.key s k)
  | ["D", s, d] => some (.data s (parseRef d))
  | _ => none

def isComplexTok (t : String) : Bool :=
  (t.startsWith "M[" || t.startsWith "C[" || t.startsWith "X[") && t.endsWith "]"

def parseTargetReq (t : String) : Option TargetReq :=
  if isComplexTok t then
    let kind : CKind := if t.startsWith "M[" then .multi else if t.startsWith "C[" then .comp else .dir
    let inner := ((t.drop 2).dropEnd 1).toString
    let parts := (inner.splitOn ";").filter (· ≠ "")
    let subs := parts.mapM (fun p => if isComplexTok p then some SelReq.nested else parseSimpleSel p)
    subs.map (fun l => .complex kind l)
  else (parseSimpleSel t).map .simple

def parseDataReq (d : String) : Option DataReq :=
  match d.splitOn "/" with
  | [s, k, v] => some ⟨s, if k = "~" then none else some k, if v = "~" then none else some v, none⟩
  | [s, k, v, i] => some ⟨s, if k = "~" then none else some k, if v = "~" then none else some v, some (parseRef i)⟩
  | _ => none

def hl (l : List Nat) : String := if l.isEmpty then "-" else ",".intercalate (l.map toString)

def showMode : OffsetMode → String
  | .bb => "bb" | .be => "be" | .eb => "eb" | .ee => "ee"

def showSel : SelM → String
  | .res r => s!"R{r}"
  | .text r t m => s!"T{r}.{t}.{showMode m}"
  | .ann a => s!"A{a}"
  | .annoff a r t m => s!"AO{a}.{r}.{t}.{showMode m}"
  | .set s => s!"S{s}"
  | .key s k => s!"K{s}.{k}"
  | .data s d => s!"D{s}.{d}"

/- (`AnnotationStore::subselectors` stores runs of annotation selectors on consecutive annotations, each referring to
the whole text of its annotation with a begin-aligned offset, as one internal ranged selector; the members it yields
afterwards report their offset begin-aligned, which is what they were given: the members are shown as built.) -/

def showTarget (s : State) : TargetM → String
  | .simple x => showSel x
  | .complex k l =>
    let c := match k with | .multi => "M" | .comp => "C" | .dir => "X"
    c ++ "[" ++ ";".intercalate (l.map showSel) ++ "]"

def joinOr (sep : String) (l : List String) : String := if l.isEmpty then "-" else sep.intercalate l

def observe (s : State) : String :=
  let anns := (List.range s.anns.length).map (fun h =>
    match getLive s.anns h with
    | none => s!"A{h}x"
    | some a =>
      let sels := a.target.sels.filterMap (fun m => match m with
        | .text r t _ => some (let p := s.selRange r t; s!"{r}.{p.1}-{p.2}")
        | .annoff _ r t _ => some (let p := s.selRange r t; s!"{r}.{p.1}-{p.2}")
        | _ => none)
      let intg := a.target.sels.filterMap (fun m => match m with
        | .ann x => some x
        | .annoff x _ _ _ => some x
        | _ => none)
      let idS := a.id.getD "~"
      let dataS := joinOr "," (a.data.map (fun p => s!"{p.1}.{p.2}"))
      s!"A{h}[{idS}]({showTarget s a.target})(d={dataS})(t={joinOr "," sels})(by={hl (s.lookup (.ann h))})(in={hl intg})")
  let ress := (List.range s.res.length).map (fun h =>
    match getLive s.res h with
    | none => s!"R{h}x"
    | some r =>
      let all := dedupSorted ((s.edges.filter (fun e => match e.1 with | .tsel x _ => x == h | _ => false)).map (·.2))
      let sels := (List.range r.sels.length).map (fun t =>
        let p := (r.sels[t]?).getD (0, 0)
        s!"{t}:{p.1}-{p.2}:{hl (s.lookup (.tsel h t))}")
      s!"R{h}[{r.id}]({r.len})(a={hl all})(m={hl (s.lookup (.resMeta h))})(s={joinOr "/" sels})")
  let sets := (List.range s.sets.length).map (fun h =>
    match getLive s.sets h with
    | none => s!"D{h}x"
    | some m =>
      let keys := (List.range m.keys.length).map (fun kh =>
        match getLive m.keys kh with
        | none => s!"{kh}:x"
        | some kid =>
          let datas := (List.range m.data.length).filter (fun dh => match getLive m.data dh with
            | some d => d.key == kh
            | none => false)
          let anns := dedupSorted (datas.flatMap (fun dh => s.lookup (.data h dh)))
          s!"{kh}:{kid}:{hl datas}:{hl anns}:{hl (s.lookup (.keyMeta h kh))}")
      let data := (List.range m.data.length).map (fun dh =>
        match getLive m.data dh with
        | none => s!"{dh}:x"
        | some d =>
          let idS := d.id.getD "~"
          s!"{dh}:{idS}:{d.key}:{d.val}:{hl (s.lookup (.data h dh))}:{hl (s.lookup (.dataMeta h dh))}")
      s!"D{h}[{m.id}](m={hl (s.lookup (.setMeta h))})(k={joinOr "/" keys})(v={joinOr "/" data})")
  let cnt (p : Key → Bool) : Nat := (s.edges.filter (fun e => p e.1)).length
  let n := s!"N={cnt (fun k => match k with | .data .. => true | _ => false)},{cnt (fun k => match k with | .tsel .. => true | _ => false)},{cnt (fun k => match k with | .resMeta _ => true | _ => false)},{cnt (fun k => match k with | .setMeta _ => true | _ => false)},{cnt (fun k => match k with | .ann _ => true | _ => false)},{cnt (fun k => match k with | .keyMeta .. => true | _ => false)},{cnt (fun k => match k with | .dataMeta .. => true | _ => false)}"
  " ".intercalate (anns ++ ress ++ sets ++ [n])

def showResp : Resp → String
  | .ok t => s!"ok {t}"
  | .err => "err"

def stStep (s : State) (args : List String) : State × String :=
  match args with
  | ["addres", id, len] =>
    match len.toNat? with
    | some n => let (r, s') := s.addRes id n; (s', showResp r)
    | none => (s, "bad-op")
  | ["addset", id] => let (r, s') := s.addSet id; (s', showResp r)
  | ["addset", id, ks] => let (r, s') := s.addSet id ((ks.splitOn ",").filter (· ≠ "")); (s', showResp r)
  | ["adddata", set, did, key, val] =>
    let (r, s') := s.addData ⟨set, some key, some val, if did = "~" then none else some (parseRef did)⟩
    (s', showResp r)
  | "annot" :: id :: tgt :: ds =>
    match parseTargetReq tgt, ds.mapM parseDataReq with
    | some t, some dl =>
      let (r, s') := s.annotate (if id = "~" then none else some id) t dl
      (s', showResp r)
    | _, _ => (s, "bad-op")
  | "batch" :: items =>
    -- `batch id^target^data^data… …`: `annotate_from_iter`
    let parsed : List (Option Item) := items.map (fun it =>
      match it.splitOn "^" with
      | id :: tgt :: ds =>
        match parseTargetReq tgt, ds.mapM parseDataReq with
        | some t, some dl => some ⟨if id = "~" then none else some id, t, dl⟩
        | _, _ => none
      | _ => none)
    if parsed.any Option.isNone then (s, "bad-op") else
    match annotateAll s (parsed.filterMap id) with
    | (some hs, s') => (s', "ok " ++ ",".intercalate hs)
    | (none, s') => (s', "err")
  | ["rmann", a] => let (r, s') := s.rmAnn (parseRef a); (s', showResp r)
  | ["rmdata", set, d, strict] => let (r, s') := s.rmData set (parseRef d) (strict = "1"); (s', showResp r)
  | ["rmkey", set, k, strict] => let (r, s') := s.rmKey set k (strict = "1"); (s', showResp r)
  | ["rmres", r] => let (x, s') := s.rmRes r; (s', showResp x)
  | ["rmset", x] => let (r, s') := s.rmSet x; (s', showResp r)
  | ["resolve", kind, hexid] =>
    match unhex hexid with
    | none => (s, "bad-op")
    | some cs =>
      let id := String.ofList cs
      let r : Option Nat := match kind with
        | "ann" => s.lookupAnn id
        | "res" => s.lookupRes id
        | "set" => s.lookupSet id
        | _ => none
      (s, match r with | some h => s!"h{h}" | none => "none")
  | ["stripann"] => (s.stripAnn, "ok -")
  | ["stripdata"] => (s.stripData, "ok -")
  | "finddata" :: rest => (s, findDataCmd s rest)
  | "qann" :: rest => (s, qannCmd s rest)
  | "qand" :: rest => (s, qandCmd s rest)
  | ["obs"] => (s, observe s)
  | _ => (s, "bad-op")

end Driver
