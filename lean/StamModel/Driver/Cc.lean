import StamModel.Concurrency
open Stam
namespace Driver

def showOut (o : List Bool) : String := String.ofList (o.map (fun b => if b then 'i' else 'n'))

/-- `cc <member bits> <programs S|M<k>|P, comma separated> <trace digits | ->`: the decisions of every reader
under the per-thread semantics; pure readers answer `-` -/
def cc (args : List String) : String :=
  match args with
  | [bits, progs, trace] =>
    let members : List Bool := bits.toList.map (· == '1')
    let prog (p : String) : Option (List CC.Act × Bool) :=
      if p = "S" then some (CC.storeProg members, true)
      else if p = "P" then some ([], false)
      else match p.toList with
        | 'M' :: k => (String.ofList k).toNat?.map (fun k => (CC.memberProg (members.getD k false), true))
        | _ => none
    let ps := (progs.splitOn ",").map prog
    if ps.any Option.isNone then "bad-op" else
    let ps := ps.filterMap id
    let tr : List Nat := if trace = "-" then [] else trace.toList.map (fun c => c.toNat - 48)
    let final := CC.runFixed true (ps.map (fun p => CC.Thread.start true p.1)) tr
    ",".intercalate ((final.zip ps).map (fun (t, p) => if p.2 then showOut t.out else "-"))
  | _ => "bad-op"

end Driver
