import StamModel.JsonSel
import StamModel.Driver.Cr
open Stam
namespace Driver

/-- prefix form of a JSON tree: `O<n>` then n × (hex key, value); `A<n>` then n values; `S<hex>`; `N<int>`; `Z` -/
partial def parseJ : List String → Option (JS.J × List String)
  | [] => none
  | tok :: rest =>
    match tok.toList with
    | ['Z'] => some (.null, rest)
    | 'S' :: h => (unhex (String.ofList h)).map (fun s => (.str s, rest))
    | 'N' :: n => (let t := String.ofList n; if t.startsWith "-" then ((t.drop 1).toNat?).map (fun k => -(k : Int)) else t.toNat?.map (fun k => (k : Int))).map (fun z => (.num z, rest))
    | 'A' :: n =>
      match (String.ofList n).toNat? with
      | none => none
      | some k =>
        let rec go : Nat → List String → Option (List JS.J × List String)
          | 0, r => some ([], r)
          | k + 1, r => match parseJ r with
            | some (x, r') => (go k r').map (fun (xs, r'') => (x :: xs, r''))
            | none => none
        (go k rest).map (fun (xs, r) => (.arr xs, r))
    | 'O' :: n =>
      match (String.ofList n).toNat? with
      | none => none
      | some k =>
        let rec goO : Nat → List String → Option (List (List Char × JS.J) × List String)
          | 0, r => some ([], r)
          | k + 1, key :: r => match unhex key, parseJ r with
            | some kk, some (x, r') => (goO k r').map (fun (xs, r'') => ((kk, x) :: xs, r''))
            | _, _ => none
          | _, [] => none
        (goO k rest).map (fun (xs, r) => (.obj xs, r))
    | _ => none

def insertBy {α} (le : α → α → Bool) (x : α) : List α → List α
  | [] => [x]
  | y :: ys => if le x y then x :: y :: ys else y :: insertBy le x ys

partial def showJ : JS.J → String
  | .null => "Z"
  | .str s => "S" ++ hexOf s
  | .num z => s!"N{z}"
  | .arr l => s!"A{l.length}" ++ String.join (l.map (fun x => " " ++ showJ x))
  | .obj ms =>
    let sorted := ms.foldl (fun acc m => insertBy (fun a b => String.ofList a.1 ≤ String.ofList b.1) m acc) []
    s!"O{ms.length}" ++ String.join (sorted.map (fun m => " " ++ hexOf m.1 ++ " " ++ showJ m.2))

/-- `js write <target>`: the JSON tree of the target (members sorted by name); `js read <tree>`: the target read from it -/
def js (args : List String) : String :=
  match args with
  | "write" :: spec =>
    match parseCrTarget spec with
    | some t => showJ (JS.targetJ t)
    | none => "bad-op"
  | "read" :: toks =>
    match parseJ toks with
    | some (j, []) =>
      match JS.readTargetJ j with
      | .ok t => "ok " ++ showCrTarget t
      | .err m => if m = "nested" then "unmodelled" else "err"
      | .panic m => "panic:" ++ m
    | _ => "bad-op"
  | _ => "bad-op"

end Driver
