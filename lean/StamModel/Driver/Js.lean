import StamModel.JsonSel
import StamModel.Driver.Cr
import StamModel.Driver.Wj
open Stam
namespace Driver

/-- prefix form of a JSON tree: `O<n>` then n × (hex key, value); `A<n>` then n values; `S<hex>`; `N<int>`; `Z` -/
partial def parseJ : List String → Option (JS.J × List String)
  | [] => none
  | tok :: rest =>
    match tok.toList with
    | ['Z'] => some (.null, rest)
    | 'S' :: h => (unhex (String.ofList h)).map (fun s => (.str s, rest))
    | ['T'] => some (.bool true, rest)
    | ['F'] => some (.bool false, rest)
    | 'X' :: h => (unhex (String.ofList h)).map (fun l => (.lit l, rest))
    | 'N' :: n => (let t := String.ofList n; if t.startsWith "-" then ((t.drop 1).toNat?).map (fun k => -(k : Int)) else t.toNat?.map (fun k => (k : Int))).map (fun z => (.num z, rest))
    | 'A' :: n =>
      match (String.ofList n).toNat? with
      | none => none
      | some k =>
        let rec go : Nat → List String → Option (List JS.J × List String)
          | 0, r => some ([], r)
          | k + 1, r => match parseJ r with
            | some (x, r') => (go k r').map (fun (xs, r'') => (x :: xs, r''))
            | none => none
        (go k rest).map (fun (xs, r) => (.arr xs, r))
    | 'O' :: n =>
      match (String.ofList n).toNat? with
      | none => none
      | some k =>
        let rec goO : Nat → List String → Option (List (List Char × JS.J) × List String)
          | 0, r => some ([], r)
          | k + 1, key :: r => match unhex key, parseJ r with
            | some kk, some (x, r') => (goO k r').map (fun (xs, r'') => ((kk, x) :: xs, r''))
            | _, _ => none
          | _, [] => none
        (goO k rest).map (fun (xs, r) => (.obj xs, r))
    | _ => none

def insertBy {α} (le : α → α → Bool) (x : α) : List α → List α
  | [] => [x]
  | y :: ys => if le x y then x :: y :: ys else y :: insertBy le x ys

partial def showJ : JS.J → String
  | .null => "Z"
  | .str s => "S" ++ hexOf s
  | .num z => s!"N{z}"
  | .lit l => "X" ++ hexOf l
  | .bool true => "T"
  | .bool false => "F"
  | .arr l => s!"A{l.length}" ++ String.join (l.map (fun x => " " ++ showJ x))
  | .obj ms =>
    let sorted := ms.foldl (fun acc m => insertBy (fun a b => String.ofList a.1 ≤ String.ofList b.1) m acc) []
    s!"O{ms.length}" ++ String.join (sorted.map (fun m => " " ++ hexOf m.1 ++ " " ++ showJ m.2))

/-- the datetime literals the JSON reader accepts (chrono's `FromStr`, through serde): the RFC 3339 shapes of
`isDatetimeLit`, and a signed year of four or more digits (what `to_rfc3339` writes for years before 0 and after 9999) -/
def isDatetimeJson (s : List Char) : Bool :=
  match s with
  | c :: r =>
    if c = '-' ∨ c = '+' then
      let ds := r.takeWhile Char.isDigit
      decide (4 ≤ ds.length) && isDatetimeLit (ds.drop (ds.length - 4) ++ r.dropWhile Char.isDigit)
    else isDatetimeLit s
  | [] => false

/-- prefix form of a data value: N | T | F | I<int> | S<hex> | X<hex float literal> | D<hex datetime literal> | L<count> … -/
partial def parseDVJ : List String → Option (JS.DVJ × List String)
  | [] => none
  | tok :: rest =>
    match tok.toList with
    | ['N'] => some (.null, rest)
    | ['T'] => some (.bool true, rest)
    | ['F'] => some (.bool false, rest)
    | 'I' :: n => (parseIntTok (String.ofList n)).map (fun z => (.int z, rest))
    | 'S' :: h => (unhex (String.ofList h)).map (fun s => (.str s, rest))
    | 'X' :: h => (unhex (String.ofList h)).map (fun s => (.flt s, rest))
    | 'D' :: h => (unhex (String.ofList h)).map (fun s => (.dt s, rest))
    | 'L' :: n =>
      match (String.ofList n).toNat? with
      | none => none
      | some k =>
        let rec goV : Nat → List String → Option (List JS.DVJ × List String)
          | 0, r => some ([], r)
          | k + 1, r => match parseDVJ r with
            | some (x, r') => (goV k r').map (fun (xs, r'') => (x :: xs, r''))
            | none => none
        (goV k rest).map (fun (xs, r) => (.list xs, r))
    | _ => none

partial def showDVJ : JS.DVJ → String
  | .null => "N" | .bool true => "T" | .bool false => "F"
  | .int z => s!"I{z}" | .str s => "S" ++ hexOf s | .flt l => "X" ++ hexOf l | .dt l => "D" ++ hexOf l
  | .list xs => s!"L{xs.length}" ++ String.join (xs.map (fun x => " " ++ showDVJ x))

/-- `js write <target>`: the JSON tree of the target (members sorted by name); `js read <tree>`: the target read from it -/
def js (args : List String) : String :=
  match args with
  | "write" :: spec =>
    match parseCrTarget spec with
    | some t => showJ (JS.targetJ t)
    | none => "bad-op"
  | "read" :: toks =>
    match parseJ toks with
    | some (j, []) =>
      match JS.readTargetJ j with
      | .ok t => "ok " ++ showCrTarget t
      | .err m => if m = "nested" then "unmodelled" else "err"
      | .panic m => "panic:" ++ m
    | _ => "bad-op"
  | "wval" :: spec =>
    match parseDVJ spec with
    | some (v, []) => showJ (JS.valueJ v)
    | _ => "bad-op"
  | "rval" :: toks =>
    match parseJ toks with
    | some (j, []) =>
      match JS.readValue isDatetimeJson (fun z => (toString z ++ ".0").toList) 64 j with
      | .ok v => "ok " ++ showDVJ v
      | .err _ => "err"
      | .panic m => "panic:" ++ m
    | _ => "bad-op"
  | _ => "bad-op"

end Driver
