import StamModel.TextOps
import StamModel.Driver.Find
import StamModel.Driver.U8
open Stam
namespace Driver

def hexVal (c : Char) : Option Nat :=
  if '0' ≤ c ∧ c ≤ '9' then some (c.toNat - '0'.toNat)
  else if 'a' ≤ c ∧ c ≤ 'f' then some (c.toNat - 'a'.toNat + 10)
  else none

def unhexBytes : List Char → Option (List UInt8)
  | [] => some []
  | [_] => none
  | a :: b :: rest => do
    let x ← hexVal a
    let y ← hexVal b
    let r ← unhexBytes rest
    some (UInt8.ofNat (x * 16 + y) :: r)

def unhex (s : String) : Option (List Char) :=
  if s = "-" then some [] else do
    let bs ← unhexBytes s.toList
    let str ← String.fromUTF8? (ByteArray.mk bs.toArray)
    some str.toList

def showPairs (l : List (Nat × Nat)) : String :=
  if l.isEmpty then "-" else ",".intercalate (l.map (fun t => s!"{t.1}-{t.2}"))

def txt (args : List String) : String :=
  match args with
  | ["find", text, b, e, needle] =>
    match unhex text, b.toNat?, e.toNat?, unhex needle with
    | some text, some b, some e, some needle =>
      match findIter (text.length + 2) [] needle text b e with
      | .ok l => showPairs l
      | .err _ => "err"
      | .panic m => s!"panic:{m}"
    | _, _, _, _ => "bad-op"
  | ["split", text, b, e, delim] =>
    match unhex text, b.toNat?, e.toNat?, unhex delim with
    | some text, some b, some e, some delim =>
      showPairs (splitIter (text.length + 2) delim ((text.drop b).take (e - b)) b)
    | _, _, _, _ => "bad-op"
  | ["trim", text, b, e, set] =>
    match unhex text, b.toNat?, e.toNat?, unhex set with
    | some text, some b, some e, some set =>
      let r := trimRange (fun c => set.contains c) text b e
      s!"{r.1}-{r.2}"
    | _, _, _, _ => "bad-op"
  | ["segm", known, b, e] =>
    match parseRanges known, b.toNat?, e.toNat? with
    | some known, some b, some e =>
      -- positions_in_range(Both, b, e): index positions in [b,e) carrying a selection, ascending, distinct
      let ps := (known.map (·.b) ++ known.map (·.e)).filter (fun p => b ≤ p && p < e)
      let sorted := (ps.eraseDups).mergeSort (· ≤ ·)
      showPairs (segments sorted b e)
    | _, _, _ => "bad-op"
  | _ => "bad-op"

end Driver
