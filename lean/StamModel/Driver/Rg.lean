import StamModel.Ranged
open Stam
namespace Driver

def rgMode : String → Option OffsetMode
  | "bb" => some .bb | "be" => some .be | "eb" => some .eb | "ee" => some .ee | _ => none
def rgModeS : OffsetMode → String
  | .bb => "bb" | .be => "be" | .eb => "eb" | .ee => "ee"

/-- a member as the harness writes it; an annotation selector with offset carries whether it covers the whole text -/
def rgMember (t : String) : Option (Ranged.Sel × Bool) :=
  let num (s : String) := s.toNat?
  if t.startsWith "AO" then
    match (t.drop 2).toString.splitOn "." with
    | [a, r, x, m, w] => do some (.annoff (← num a) (← num r) (← num x) (← rgMode m), w = "1")
    | _ => none
  else if t.startsWith "T" then
    match (t.drop 1).toString.splitOn "." with
    | [r, x, m] => do some (.text (← num r) (← num x) (← rgMode m), false)
    | _ => none
  else if t.startsWith "A" then (num (t.drop 1).toString).map (fun a => (.ann a, false))
  else if t.startsWith "R" then (num (t.drop 1).toString).map (fun a => (.res a, false))
  else if t.startsWith "S" then (num (t.drop 1).toString).map (fun a => (.set a, false))
  else if t.startsWith "K" then
    match (t.drop 1).toString.splitOn "." with
    | [s, k] => do some (.key (← num s) (← num k), false)
    | _ => none
  else if t.startsWith "D" then
    match (t.drop 1).toString.splitOn "." with
    | [s, k] => do some (.data (← num s) (← num k), false)
    | _ => none
  else none

def rgShow : Ranged.Sel → String
  | .text r t m => s!"T{r}.{t}.{rgModeS m}"
  | .ann a => s!"A{a}"
  | .annoff a r t m => s!"AO{a}.{r}.{t}.{rgModeS m}"
  | .res r => s!"R{r}"
  | .set s => s!"S{s}"
  | .key s k => s!"K{s}.{k}"
  | .data s d => s!"D{s}.{d}"
  | .rtext r b e => s!"RT{r}.{b}.{e}"
  | .rann b e w => s!"RA{b}.{e}.{if w then 1 else 0}"

/-- `rg <member> …`: the ordered members as built; answers what is stored, then what iteration yields -/
def rg (args : List String) : String :=
  let ms := args.map rgMember
  if ms.any Option.isNone then "bad-op" else
  let ms := ms.filterMap id
  let whole : Nat → Nat → Nat → Bool := fun a r t => ms.any (fun p => match p.1 with
    | .annoff a' r' t' _ => a' == a && r' == r && t' == t && p.2
    | _ => false)
  let tsel : Nat → Option (Nat × Nat) := fun a => (ms.findSome? (fun p => match p.1 with
    | .annoff a' r t _ => if a' == a && p.2 then some (r, t) else none
    | _ => none))
  let stored := Ranged.fold whole (ms.map (·.1))
  ";".intercalate (stored.map rgShow) ++ " | " ++ ";".intercalate ((Ranged.expandAll tsel stored).map rgShow)

end Driver
