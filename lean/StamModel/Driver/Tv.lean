import StamModel.Validation
import StamModel.Driver.Txt
open Stam
namespace Driver

def hexOf (t : List Char) : String :=
  if t.isEmpty then "-" else
    let hd (n : Nat) : Char := if n < 10 then Char.ofNat (48 + n) else Char.ofNat (87 + n)
    String.ofList ((String.ofList t).toUTF8.toList.flatMap (fun b => [hd (b.toNat / 16), hd (b.toNat % 16)]))

def optAll {α} : List (Option α) → Option (List α)
  | [] => some []
  | none :: _ => none
  | some x :: r => (optAll r).map (x :: ·)

def splitList (sep : String) (s : String) : List String := if s = "_" then [] else s.splitOn sep

def parseTexts (s : String) : Option (List TV.Text) := optAll ((splitList ";" s).map unhex)

def parseSel (s : String) : Option TV.Sel :=
  match s.splitOn "." with
  | [r, b, e] => do some ⟨← r.toNat?, ← b.toNat?, ← e.toNat?⟩
  | _ => none

def parseSels (s : String) : Option (List TV.Sel) :=
  if s = "-" then some [] else optAll ((s.splitOn "+").map parseSel)

def parseOptText (s : String) : Option (Option TV.Text) := if s = "~" then some none else (unhex s).map some

def parseAnn (s : String) : Option (TV.Ann TV.Text) :=
  match s.splitOn "/" with
  | [d, c, t, sels] => do some ⟨← parseSels sels, ← parseOptText d, ⟨← parseOptText c, ← parseOptText t⟩⟩
  | _ => none

def parseTvMode : String → Option TV.Mode
  | "c" => some .checksum | "t" => some .text | "b" => some .both | "a" => some .auto | _ => none

def showOptText : Option TV.Text → String
  | none => "~"
  | some t => hexOf t

def showVerdict : Option Bool → String
  | some true => "v" | some false => "i" | none => "m"

def showResult (r : TV.Result) : String := s!"{r.valid}/{r.invalid}/{r.missing}"

/-- `tv <mode> <texts> <anns> <texts'> <sels'>`: protect under `mode`, validate, then validate the same
annotations (same stored information) against other texts and re-resolved selections.
The checksum function of the executable model is the identity: a checksum is shown as the text it is the
checksum of; the harness renders the library's SHA-1 values the same way by recomputing them. -/
def tv (args : List String) : String :=
  match args with
  | [m, texts, anns, texts', sels'] =>
    match parseTvMode m, parseTexts texts, optAll ((splitList "|" anns).map parseAnn), parseTexts texts',
          optAll ((splitList "|" sels').map parseSels) with
    | some m, some texts, some anns, some texts', some sels' =>
      if sels'.length ≠ anns.length then "bad-op" else
      let prot := TV.protect id m texts anns
      let after : List (TV.Ann TV.Text) := (prot.zip sels').map (fun (a, s) => { a with sels := s })
      let per := (prot.zip after).map (fun (a, a') =>
        s!"c={showOptText a.info.checksum},t={showOptText a.info.text},{showVerdict (TV.validateOne id a.info (a.text texts))},{showVerdict (TV.validateOne id a'.info (a'.text texts'))}")
      let r0 := TV.validateAll id texts prot
      let r1 := TV.validateAll id texts' after
      s!"{" ".intercalate per} R0={showResult r0} R1={showResult r1}"
    | _, _, _, _, _ => "bad-op"
  | _ => "bad-op"

end Driver
