import StamModel.Offset
open Stam
namespace Driver

def parseInt (s : String) : Option Int :=
  if s.startsWith "-" then (s.drop 1).toNat?.map (fun n => -(n : Int)) else s.toNat?.map (fun n => (n : Int))

def parseCursor (s : String) : Option Cursor :=
  if s.startsWith "b" then (s.drop 1).toNat?.map Cursor.b
  else if s.startsWith "e" then (parseInt (s.drop 1).toString).map Cursor.e
  else none

def showCursor : Cursor → String
  | .b n => s!"b{n}"
  | .e z => s!"e{z}"

def parseMode : String → Option OffsetMode
  | "bb" => some .bb | "be" => some .be | "eb" => some .eb | "ee" => some .ee | _ => none

def showRange : Out (Nat × Nat) → String
  | .ok (b, e) => s!"ok {b} {e}"
  | .err _ => "err"
  | .panic m => s!"panic:{m}"

def off (args : List String) : String :=
  match args with
  | ["res", len, c1, c2] =>
    match len.toNat?, parseCursor c1, parseCursor c2 with
    | some n, some a, some b => showRange (resolveRes n ⟨a, b⟩)
    | _, _, _ => "bad-op"
  | ["sub", pb, pe, c1, c2] =>
    match pb.toNat?, pe.toNat?, parseCursor c1, parseCursor c2 with
    | some pb, some pe, some a, some b => showRange (resolveSub pb pe ⟨a, b⟩)
    | _, _, _, _ => "bad-op"
  | ["report", m, len, b, e] =>
    match parseMode m, len.toNat?, b.toNat?, e.toNat? with
    | some m, some n, some b, some e =>
      let o := reportRes m n b e
      s!"{showCursor o.c1} {showCursor o.c2}"
    | _, _, _, _ => "bad-op"
  | ["relreport", m, pb, pe, b, e] =>
    match parseMode m, pb.toNat?, pe.toNat?, b.toNat?, e.toNat? with
    | some m, some pb, some pe, some b, some e =>
      match reportRel m pb pe b e with
      | .ok (some o) => s!"{showCursor o.c1} {showCursor o.c2}"
      | .ok none => "none"
      | .err _ => "err"
      | .panic msg => s!"panic:{msg}"
    | _, _, _, _, _ => "bad-op"
  | _ => "bad-op"

end Driver
