import StamModel.Utf8
open Stam
namespace Driver

def parseNatList (s : String) : Option (List Nat) :=
  if s = "-" then some [] else (s.splitOn ",").mapM (·.toNat?)

def parsePairs (s : String) : Option (List (Nat × Nat)) :=
  if s = "-" then some [] else
  (s.splitOn ",").mapM (fun x => match x.splitOn ":" with
    | [a, b] => do some (← a.toNat?, ← b.toNat?)
    | _ => none)

def showNatOut : Out Nat → String
  | .ok n => s!"ok {n}"
  | .err _ => "err"
  | .panic m => s!"panic:{m}"

def u8 (args : List String) : String :=
  match args with
  | ["byte", ws, idx, p] =>
    match parseNatList ws, parsePairs idx, p.toNat? with
    | some ws, some idx, some p => showNatOut (utf8byte idx ws p)
    | _, _, _ => "bad-op"
  | ["char", ws, b2c, byte] =>
    match parseNatList ws, parsePairs b2c, byte.toNat? with
    | some ws, some b2c, some byte => showNatOut (utf8byteToCharpos b2c ws byte)
    | _, _, _ => "bad-op"
  | ["subbyte", ws, idx, b, e, rel] =>
    match parseNatList ws, parsePairs idx, b.toNat?, e.toNat?, rel.toNat? with
    | some ws, some idx, some b, some e, some rel => showNatOut (utf8byteSub idx ws b e rel)
    | _, _, _, _, _ => "bad-op"
  | ["subchar", ws, idx, b2c, b, e, byte] =>
    match parseNatList ws, parsePairs idx, parsePairs b2c, b.toNat?, e.toNat?, byte.toNat? with
    | some ws, some idx, some b2c, some b, some e, some byte => showNatOut (utf8byteToCharposSub idx b2c ws b e byte)
    | _, _, _, _, _, _ => "bad-op"
  | _ => "bad-op"

end Driver
