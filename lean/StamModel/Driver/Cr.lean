import StamModel.CsvRow
import StamModel.Driver.Tv
open Stam
namespace Driver

def parseCur (s : String) : Option Cursor :=
  match s.toList with
  | 'b' :: n => (String.ofList n).toNat?.map Cursor.b
  | 'e' :: '-' :: n => (String.ofList n).toNat?.map (fun k => Cursor.e (-(k : Int)))
  | 'e' :: n => (String.ofList n).toNat?.map (fun k => Cursor.e (k : Int))
  | _ => none

def parseCrSub : List String → Option (Csv.Sub × List String)
  | "t" :: r :: b :: e :: rest => do some (.text (← unhex r) (← parseCur b) (← parseCur e), rest)
  | "a" :: a :: "-" :: rest => do some (.ann (← unhex a) none, rest)
  | "a" :: a :: b :: e :: rest => do some (.ann (← unhex a) (some (← parseCur b, ← parseCur e)), rest)
  | "r" :: r :: rest => do some (.res (← unhex r), rest)
  | "s" :: d :: rest => do some (.set (← unhex d), rest)
  | "k" :: d :: k :: rest => do some (.key (← unhex d) (← unhex k), rest)
  | "d" :: d :: x :: rest => do some (.data (← unhex d) (← unhex x), rest)
  | _ => none

def parseCrSubs : Nat → List String → Option (List Csv.Sub × List String)
  | 0, r => some ([], r)
  | n + 1, r =>
    match parseCrSub r with
    | some (s, r') => (parseCrSubs n r').map (fun (ss, r'') => (s :: ss, r''))
    | none => none

def parseCrTarget : List String → Option Csv.Target
  | "S" :: rest => match parseCrSub rest with | some (s, []) => some (.simple s) | _ => none
  | k :: n :: rest =>
    let kind : Option Csv.Kind := if k = "CM" then some .multi else if k = "CC" then some .comp else if k = "CX" then some .dir else none
    match kind, n.toNat? with
    | some kd, some cnt => match parseCrSubs cnt rest with | some (ss, []) => some (.complex kd ss) | _ => none
    | _, _ => none
  | _ => none

def showNatChars (n : Nat) : List Char := (toString n).toList

def showSub : Csv.Sub → String
  | .text r b e => s!"t {hexOf r} {showCursorTok b} {showCursorTok e}"
  | .ann a none => s!"a {hexOf a} -"
  | .ann a (some (b, e)) => s!"a {hexOf a} {showCursorTok b} {showCursorTok e}"
  | .res r => s!"r {hexOf r}"
  | .set d => s!"s {hexOf d}"
  | .key d k => s!"k {hexOf d} {hexOf k}"
  | .data d x => s!"d {hexOf d} {hexOf x}"
where showCursorTok : Cursor → String
  | .b n => s!"b{n}"
  | .e z => s!"e{z}"

def showCrTarget : Csv.Target → String
  | .simple s => "S " ++ showSub s
  | .complex k ss =>
    let kk := match k with | .multi => "CM" | .comp => "CC" | _ => "CX"
    kk ++ s!" {ss.length} " ++ " ".intercalate (ss.map showSub)

/-- `cr row <target>`: the eight target cells; `cr read <8 hex cells>`: the target read from them;
`cr data <n> (<set> <id>)*`: the two data cells and what is read back -/
def cr (args : List String) : String :=
  match args with
  | "row" :: spec =>
    match parseCrTarget spec with
    | some t =>
      let r := Csv.writeRow showNatChars t
      " ".intercalate ([r.selectortype, r.resource, r.annotation, r.dataset, r.begin, r.end_, r.key, r.data].map hexOf)
    | none => "bad-op"
  | ["read", a, b, c, d, e, f, g, h] =>
    match unhex a, unhex b, unhex c, unhex d, unhex e, unhex f, unhex g, unhex h with
    | some a, some b, some c, some d, some e, some f, some g, some h =>
      match Csv.readTarget (fun s => (String.ofList s).toNat?) ⟨a, b, c, d, e, f, g, h⟩ with
      | .ok t => "ok " ++ showCrTarget t
      | .err _ => "err"
      | .panic m => "panic:" ++ m
    | _, _, _, _, _, _, _, _ => "bad-op"
  | "data" :: _ :: rest =>
    match optAll (rest.map unhex) with
    | some l =>
      let items := (pairs l)
      let w := Csv.writeData items
      let back := Csv.readData w.1 w.2
      s!"{hexOf w.1} {hexOf w.2} " ++ (if back == items then "same" else "differs")
    | none => "bad-op"
  | _ => "bad-op"
where pairs : List (List Char) → List (List Char × List Char)
  | a :: b :: r => (a, b) :: pairs r
  | _ => []

end Driver
