import StamModel.WebAnno
import StamModel.Driver.Ql
import StamModel.Driver.Dv
open Stam
namespace Driver

def showIntChars (n : Int) : List Char := (toString n).toList

/-- prefix form: N | T | F | I<int> | S<hex> | X<hex literal> | L<count>, comma separated -/
partial def parseWV : List String → Option (WA.WV × List String)
  | [] => none
  | tok :: rest =>
    if tok = "N" then some (.null, rest)
    else if tok = "T" then some (.bool true, rest)
    else if tok = "F" then some (.bool false, rest)
    else match tok.toList with
      | 'I' :: n => (parseIntTok (String.ofList n)).map (fun i => (.int i, rest))
      | 'S' :: h => (unhex (String.ofList h)).map (fun s => (.str s, rest))
      | 'X' :: h => (unhex (String.ofList h)).map (fun s => (.lit s, rest))
      | 'L' :: n =>
        match (String.ofList n).toNat? with
        | none => none
        | some k =>
          let rec go : Nat → List String → Option (WA.WVs × List String)
            | 0, r => some (.nil, r)
            | k + 1, r =>
              match parseWV r with
              | none => none
              | some (x, r') => (go k r').map (fun (xs, r'') => (.cons x xs, r''))
          (go k rest).map (fun (xs, r) => (.list xs, r))
      | _ => none

/-- `wj str <hex>` / `wj val <spec>` / `wj iri <hex> <hexprefix>` -/
def wj (args : List String) : String :=
  match args with
  | ["str", h] => match unhex h with | some s => hexOf (WA.jsonStr s) | none => "bad-op"
  | ["val", spec] =>
    match parseWV (spec.splitOn ",") with
    | some (v, []) => hexOf (WA.renderValue showIntChars v)
    | _ => "bad-op"
  | ["iri", h, p] => match unhex h, unhex p with | some s, some p => hexOf (WA.intoIri s p) | _, _ => "bad-op"
  | _ => "bad-op"

end Driver
