import StamModel.Driver.Rel
import StamModel.Driver.Off
import StamModel.Driver.U8
import StamModel.Driver.Find
import StamModel.Driver.Txt
import StamModel.Driver.St
import StamModel.Driver.Tv
import StamModel.Driver.Tp
import StamModel.Driver.Ql
import StamModel.Driver.Wj
import StamModel.Driver.Wd
import StamModel.Driver.Cr
import StamModel.Driver.Js
import StamModel.Driver.Cc
import StamModel.Driver.Tid
import StamModel.Driver.Hs
import StamModel.Driver.Sq
import StamModel.Driver.Vo
import StamModel.Driver.Rg
import StamModel.Driver.Px
import StamModel.Driver.Rx
/-
  Line-protocol driver: one request per line on stdin, one answer per line on stdout.
  Built as the `stamdriver` executable (core Lean only).
-/
namespace Driver

/-- the stateless families -/
def step (line : String) : String :=
  match (line.trimAscii.toString.splitOn " ") with
  | "rel" :: args => rel args
  | "off" :: args => off args
  | "u8" :: args => u8 args
  | "find" :: args => findCmd args
  | "txt" :: args => txt args
  | "dv" :: args => dv args
  | "tv" :: args => tv args
  | "tp" :: args => tp args
  | "ql" :: args => ql args
  | "wj" :: args => wj args
  | "wd" :: args => wd args
  | "cr" :: args => cr args
  | "js" :: args => js args
  | "cc" :: args => cc args
  | "tid" :: args => tid args
  | "hs" :: args => hs args
  | "lim" :: args => lim args
  | "sq" :: args => sq args
  | "vo" :: args => vo args
  | "rg" :: args => rg args
  | "px" :: args => px args
  | "rx" :: args => rx args
  | "sqspec" :: args => sqspec args
  | ["reset"] => "ok"
  | _ => "bad-op"

partial def loop (h : IO.FS.Stream) (out : IO.FS.Stream) (st : Stam.State) : IO Unit := do
  let line ← h.getLine
  if line.isEmpty then return ()
  match (line.trimAscii.toString.splitOn " ") with
  | ["reset"] => out.putStrLn "ok"; loop h out Stam.State.empty
  | "st" :: args =>
    let (st', ans) := stStep st args
    out.putStrLn ans
    loop h out st'
  | _ =>
    out.putStrLn (step line)
    loop h out st

end Driver

def main : IO Unit := do
  let stdin ← IO.getStdin
  let stdout ← IO.getStdout
  Driver.loop stdin stdout Stam.State.empty
