import StamModel.Prelude
import StamModel.Rel
