#!/usr/bin/env python3
"""MANIFEST.json is generated from checks.json (one entry per claimed property) so that it is always valid."""
import json
checks = json.load(open('/verif/checks.json'))
props = [json.loads(l) for l in open('/verif/properties.jsonl')]
hooks_commits = []
try:
    hooks_commits = json.load(open('/verif/hook_commits.json'))
except Exception:
    pass
m = {
    "version": 1,
    "setup_cmd": "./check --setup",
    "hooks": {
        "guard": "stam_verif",
        "enable": "RUSTFLAGS=\"--cfg stam_verif\" (set in /verif/harness/.cargo/config.toml; the harness path-depends on /repo)",
        "baseline_off_cmd": "cd /repo && cargo test --workspace --no-fail-fast --offline",
        "source_commits": hooks_commits,
        "add_only": True,
    },
    "engines": [
        {"name": "lean-model", "path": "lean/", "serves_properties": sorted(checks), "kind_free_text": "Lean 4 executable models + property theorems (StamModel/Props/Cxx.lean), line-protocol driver stamdriver"},
        {"name": "harness", "path": "harness/", "serves_properties": sorted(checks), "kind_free_text": "Rust harness: generators, real-library executors, independent oracles, model correspondence, replay"},
        {"name": "translator", "path": "translate/", "serves_properties": sorted(p for p in checks if checks[p].get("translated")), "kind_free_text": "syn-based Rust->Lean translator for pure kernels, regenerated on every run"},
    ],
    "checks": [],
    "not_applicable": [],
    "notes": "See DESIGN.md. Every check: lake build of the property's theorems + axiom audit, then implementation-vs-oracle and implementation-vs-Lean-model correspondence on generated cases; known findings are listed in known_findings.json.",
}
for p in props:
    pid = p["id"]
    if pid in checks:
        c = checks[pid]
        m["checks"].append({
            "property_id": pid,
            "quick_cmd": f"./check {pid} quick",
            "thorough_cmd": f"./check {pid} thorough",
            "evidence_file": f"/verif/evidence/{pid}.json",
            "replay_cmd_template": f"./check {pid} --replay {{path}}",
            "engine": "lean-model",
            "level_claimed": {
                "category": "proof",
                "text": c.get("level_text", "Lean 4 theorems over an executable model of the code, for all inputs/histories; the model is tied to /repo on every run by differential correspondence (and, where marked, regenerated from source)."),
                "design_ref": c.get("design_ref", "DESIGN.md section 5/" + pid),
            },
            "level_note": c.get("level_note", "Trusted: Lean kernel + {propext, Classical.choice, Quot.sound}; the hand-written model (tied by generator-bounded differential testing against the real library); std/serde/regex etc. modelled, not verified."),
            "technique": c.get("technique", "Lean 4 proof over executable model + model/implementation correspondence"),
        })
    else:
        m["not_applicable"].append({"property_id": pid, "reason": "not claimed yet: model and correspondence for this property are still being built (see DESIGN.md section 8 for the order of work)"})
json.dump(m, open('/verif/MANIFEST.json', 'w'), indent=1)
print("claimed:", sorted(checks))
