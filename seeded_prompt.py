#!/usr/bin/env python3
"""print the prompt given to a fresh sub-agent that seeds a property-breaking change (only the property text + a worktree)"""
import json, sys
pid, wt = sys.argv[1], sys.argv[2]
angle = sys.argv[3] if len(sys.argv) > 3 else ""
p = next(json.loads(l) for l in open('/verif/properties.jsonl') if json.loads(l)['id'] == pid)
print(f"""You are working in a scratch git worktree of the Rust library stam-rust (stand-off text annotation model) at {wt}. Work ONLY inside {wt} (never touch /repo or /verif, do not read /verif). The network is unavailable; build with `cargo build --offline` / `cargo test --offline` (a Cargo.lock is already in place).

Here is a semantic property that the library is supposed to satisfy:

TITLE: {p['title']}
STATEMENT: {p['statement']}
QUANTIFIER: {p['quantifier']['text']}
RELEVANT FILES: {', '.join(p['anchors']['files'])}
MECHANISMS: {'; '.join(m['name'] + ' (' + m.get('where','') + ')' for m in p['anchors']['mechanism'])}

Your task: produce ONE realistic, small source change (a plausible bug a maintainer could introduce: an off-by-one, a wrong comparison, a dropped guard, a wrong map/index, a fast path that is subtly wrong, two sites that each look fine alone...) to the library source under {wt}/src (NOT the tests) that BREAKS this property while
  (a) the crate still compiles, and
  (b) the ENTIRE existing test suite still passes: `cd {wt} && cargo test --workspace --no-fail-fast --offline` must show no failures (run it and confirm).
The change must need something specific to manifest — an unusual input, a multi-step sequence of operations, a particular configuration or position — NOT something ordinary use would expose at once. {angle}

Also write a demonstration: a new integration test file {wt}/tests/seeded_demo.rs (using only the public API of the crate `stam`) with one #[test] that FAILS with your change and PASSES without it. Verify both: run `cargo test --offline --test seeded_demo` with your change (must fail), then save your change with `git diff -- src > /tmp/$(basename {wt}).patch`, revert the sources with `git checkout -- src` (keep the demo file), run the demo again (must pass), then re-apply with `git apply /tmp/$(basename {wt}).patch`. Do NOT use `git stash` (the stash is shared between worktrees and other people are working in sibling worktrees).

When done, leave the worktree with your source change applied (uncommitted) and the demo test file present. Write {wt}/SEEDED.md with: what you changed and why it breaks the property, what it needs in order to manifest, and the exact commands you ran with their outcomes. Then save the source change as a patch: `cd {wt} && git diff -- src > {wt}/patch.diff`.
In your final answer, report: the one-paragraph description, whether the full test suite passed with the change, and whether the demo fails with / passes without the change. Do not delete the target directory.""")
