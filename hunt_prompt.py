#!/usr/bin/env python3
"""print the prompt given to a fresh sub-agent that looks for EXISTING violations of a property (only the property text + a worktree)"""
import json, sys
pid, wt = sys.argv[1], sys.argv[2]
p = next(json.loads(l) for l in open('/verif/properties.jsonl') if json.loads(l)['id'] == pid)
print(f"""You are working in a scratch git worktree of the Rust library stam-rust (stand-off text annotation model) at {wt}. Work ONLY inside {wt} (never touch /repo or /verif, do not read /verif). The network is unavailable; build with `cargo build --offline` / `cargo test --offline` (a Cargo.lock is already in place). Do not change anything under {wt}/src.

Here is a semantic property that the library is supposed to satisfy:

TITLE: {p['title']}
STATEMENT: {p['statement']}
QUANTIFIER: {p['quantifier']['text']}
RELEVANT FILES: {', '.join(p['anchors']['files'])}
MECHANISMS: {'; '.join(m['name'] + ' (' + m.get('where','') + ')' for m in p['anchors']['mechanism'])}

Your task: find inputs on which the CURRENT, unmodified code violates this property. Read the relevant code carefully, form hypotheses about corner cases the authors are unlikely to have tried (unusual but legal inputs, orders of operations, boundary positions, items sharing boundaries or identifiers, empty things, multi-byte characters, several resources/datasets, complex selectors, options away from their defaults), and TEST each hypothesis with a small integration test under {wt}/tests/ using only the public API of the crate `stam` (the tests directory of the repository shows how the API is used). Many obvious things have already been examined and repaired; look for the less obvious ones. Aim for depth over breadth: a confirmed violation with a minimal reproducing test is worth far more than a list of suspicions.

Write every CONFIRMED violation as a #[test] in {wt}/tests/hunt.rs that FAILS on the current code and would pass on a correct implementation (one test per violation, with a comment saying what is wrong and where in src/ the cause lies). Do NOT use `git stash`. Other people run the test suite in sibling worktrees; tests that write files must use a directory of their own under {wt}/target/.

In your final answer, list each confirmed violation: the input, what the code does, what the property requires, and the place in the source that causes it (file and function, with the reason). Then list, separately and briefly, suspicions you could not confirm. If you found nothing, say so plainly and say what you tried.""")
